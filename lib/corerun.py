"""Core Ferret programs: S-expression → (fvdriver core) → .fer text + expected outcome → real compiler."""
import os
from common import *
from ferretrun import *


def model_run(sx_programs):
    """returns list of dict(text, term, lines) or None (bad program) per S-expression"""
    out = run_driver(["core"], "".join(" ".join(s.split()) + "\n" for s in sx_programs)).split("\n")
    res = []
    for l in out[:len(sx_programs)]:
        f = l.split()
        if not f or f[0] != "ok":
            res.append({"error": l})
            continue
        text = bytes.fromhex(f[1]).decode() if f[1] != "-" else ""
        lines = bytes.fromhex(f[3]).decode().split("\n") if f[3] != "-" else ([] if f[4] == "0" else [""])
        res.append({"text": text, "term": f[2], "lines": lines})
    return res


def compare(model, r, target="native"):
    """None if the executable behaved as the model prescribes, else a description.
    A model panic = abnormal termination (non-zero exit) with the lines printed before it delivered."""
    if not r.accepted:
        return "rejected: " + " | ".join(d[2] for d in r.diags if d[0] == "error")[:300] + strip_ansi(r.compile_out)[-200:]
    if not r.artifact:
        return "no artifact although the compiler exited 0: " + strip_ansi(r.compile_out)[-300:]
    if r.timeout:
        return "timeout"
    if model["term"] == "exit":
        if r.run_rc != 0:
            return "exit status %s (stderr %s), expected normal exit; output %s" % (r.run_rc, r.stderr[-200:], r.lines[-3:])
        if r.lines != model["lines"]:
            j = next((k for k in range(min(len(r.lines), len(model["lines"]))) if r.lines[k] != model["lines"][k]), min(len(r.lines), len(model["lines"])))
            return "output line %d is %r, expected %r" % (j, r.lines[j] if j < len(r.lines) else None, model["lines"][j] if j < len(model["lines"]) else None)
        return None
    if model["term"].startswith("panic"):
        if r.run_rc == 0:
            return "program exits normally, expected %s; output %s" % (model["term"], r.lines[-3:])
        if r.lines != model["lines"]:
            return "lines delivered before the panic: %s, expected %s" % (r.lines[-4:], model["lines"][-4:])
        return None
    return "model-" + model["term"]
