"""Translator for the WebAssembly instruction-selection table (C02): the probe program of lib/qbesel.py is compiled with `-target wasm` by the
compiler of the current tree, the binary module is decoded (type, import, function, export and code sections), each probe function's body is
located (the emitter lays functions out in sorted name order; checked against the exported `main` and every signature), the single-block
dispatcher wrapper the emitter puts around every function body is matched and removed, and the straight-line stack code of the block is written
to lean/FerretVerif/Gen/WasmSel.lean.  Props/C02 proves every regenerated row correct and equal in effect to the native row."""
import os, re, hashlib, shutil, subprocess
from common import *
import qbesel
from qbesel import program, fname_of, ty_lean

OPS = {0x45: "i32.eqz", 0x46: "i32.eq", 0x47: "i32.ne", 0x48: "i32.lt_s", 0x49: "i32.lt_u", 0x4a: "i32.gt_s", 0x4b: "i32.gt_u", 0x4c: "i32.le_s", 0x4d: "i32.le_u", 0x4e: "i32.ge_s", 0x4f: "i32.ge_u",
       0x50: "i64.eqz", 0x51: "i64.eq", 0x52: "i64.ne", 0x53: "i64.lt_s", 0x54: "i64.lt_u", 0x55: "i64.gt_s", 0x56: "i64.gt_u", 0x57: "i64.le_s", 0x58: "i64.le_u", 0x59: "i64.ge_s", 0x5a: "i64.ge_u",
       0x6a: "i32.add", 0x6b: "i32.sub", 0x6c: "i32.mul", 0x6d: "i32.div_s", 0x6e: "i32.div_u", 0x6f: "i32.rem_s", 0x70: "i32.rem_u", 0x71: "i32.and", 0x72: "i32.or", 0x73: "i32.xor", 0x74: "i32.shl", 0x75: "i32.shr_s", 0x76: "i32.shr_u",
       0x7c: "i64.add", 0x7d: "i64.sub", 0x7e: "i64.mul", 0x7f: "i64.div_s", 0x80: "i64.div_u", 0x81: "i64.rem_s", 0x82: "i64.rem_u", 0x83: "i64.and", 0x84: "i64.or", 0x85: "i64.xor", 0x86: "i64.shl", 0x87: "i64.shr_s", 0x88: "i64.shr_u",
       0xa7: "i32.wrap_i64", 0xac: "i64.extend_i32_s", 0xad: "i64.extend_i32_u", 0x0f: "return", 0x0b: "end", 0x1a: "drop", 0x00: "unreachable", 0x05: "else"}
I32, I64 = 0x7f, 0x7e


def leb_u(b, i):
    r = s = 0
    while True:
        x = b[i]; i += 1
        r |= (x & 0x7f) << s; s += 7
        if not x & 0x80: return r, i


def leb_s(b, i):
    r = s = 0
    while True:
        x = b[i]; i += 1
        r |= (x & 0x7f) << s; s += 7
        if not x & 0x80:
            if x & 0x40: r -= 1 << s
            return r, i


def decode_body(b):
    """[(mnemonic, immediate)] or None if an opcode is unknown"""
    i, out = 0, []
    while i < len(b):
        op = b[i]; i += 1
        if op in (0x20, 0x21, 0x22):
            n, i = leb_u(b, i); out.append(({0x20: "local.get", 0x21: "local.set", 0x22: "local.tee"}[op], n))
        elif op == 0x41:
            n, i = leb_s(b, i); out.append(("i32.const", n))
        elif op == 0x42:
            n, i = leb_s(b, i); out.append(("i64.const", n))
        elif op in (0x02, 0x03, 0x04):
            out.append(({2: "block", 3: "loop", 4: "if"}[op], b[i])); i += 1
        elif op in (0x0c, 0x0d):
            n, i = leb_u(b, i); out.append(({0x0c: "br", 0x0d: "br_if"}[op], n))
        elif op == 0x10:
            n, i = leb_u(b, i); out.append(("call", n))
        elif op in OPS:
            out.append((OPS[op], None))
        else:
            return None
    return out


def parse_module(b):
    """-> dict(types, nimports, ftypes, exports, bodies[(locals decl, instrs|None)])"""
    if b[:8] != b"\0asm\x01\0\0\0":
        raise ValueError("not a wasm module")
    i, secs = 8, {}
    while i < len(b):
        sid = b[i]; i += 1
        n, i = leb_u(b, i); secs.setdefault(sid, []).append(b[i:i + n]); i += n
    types = []
    t = secs[1][0]; i = 0; nt, i = leb_u(t, i)
    for _ in range(nt):
        if t[i] != 0x60: raise ValueError("type form")
        i += 1
        np_, i = leb_u(t, i); ps = list(t[i:i + np_]); i += np_
        nr, i = leb_u(t, i); rs = list(t[i:i + nr]); i += nr
        types.append((ps, rs))
    nimp = 0
    if 2 in secs:
        t = secs[2][0]; i = 0; n, i = leb_u(t, i)
        for _ in range(n):
            l, i = leb_u(t, i); i += l
            l, i = leb_u(t, i); i += l
            k = t[i]; i += 1
            if k != 0: raise ValueError("import kind %d" % k)
            _, i = leb_u(t, i); nimp += 1
    t = secs[3][0]; i = 0; nf, i = leb_u(t, i); ftypes = []
    for _ in range(nf):
        x, i = leb_u(t, i); ftypes.append(x)
    exports = {}
    t = secs[7][0]; i = 0; n, i = leb_u(t, i)
    for _ in range(n):
        l, i = leb_u(t, i); nm = t[i:i + l].decode(); i += l
        k = t[i]; i += 1
        idx, i = leb_u(t, i); exports[nm] = (k, idx)
    bodies = []
    t = secs[10][0]; i = 0; n, i = leb_u(t, i)
    for _ in range(n):
        sz, i = leb_u(t, i); body = t[i:i + sz]; i += sz
        j = 0; nl, j = leb_u(body, j); locs = []
        for _ in range(nl):
            c, j = leb_u(body, j); locs.append((c, body[j])); j += 1
        bodies.append((locs, decode_body(body[j:])))
    return dict(types=types, nimports=nimp, ftypes=ftypes, exports=exports, bodies=bodies)


def strip_dispatcher(ins, nparams, result_vt):
    """The emitter wraps a function's blocks in `pc := 0; loop { if pc == 0 { BLOCK0 } ; br 0 } ; <default return>`.  For a one-block function whose
    block ends in `return` this runs BLOCK0 once.  Returns BLOCK0 (up to and including its return) or None if the wrapper is not exactly that."""
    if len(ins) < 8: return None
    pre = ins[:7]
    if not (pre[0] == ("i32.const", 0) and pre[1][0] == "local.set" and pre[2] == ("loop", 0x40) and pre[3] == ("local.get", pre[1][1]) and pre[4] == ("i32.const", 0)
            and pre[5] == ("i32.eq", None) and pre[6] == ("if", 0x40)):
        return None
    pc = pre[1][1]
    if pc < nparams: return None
    core = ins[7:]
    names = [x[0] for x in core]
    if "return" not in names: return None
    j = names.index("return")
    body, suffix = core[:j + 1], core[j + 1:]
    const = "i32.const" if result_vt == I32 else "i64.const"
    if suffix != [("end", None), ("br", 0), ("end", None), (const, 0), ("return", None), ("end", None)]:
        return None
    for m, imm in body:
        if m in ("local.get", "local.set", "local.tee") and imm == pc: return None
        if m in ("block", "loop", "if", "else", "end", "br", "br_if", "call"): return None
    return body


def vt_of(t):
    return I64 if t[1:] == "64" else I32


def gen_wasmsel():
    """returns (problems, rows); rows: (kind, op, t1, t2, nparams, nlocals, lean instrs, protocol tokens).  Writes Gen/WasmSel.lean."""
    text, names = program()
    ferret, libs = build_ferret()
    base = os.path.join(scratch(), "proj", "wasmsel%d" % os.getpid())
    d = os.path.join(base, "app")
    shutil.rmtree(base, ignore_errors=True)
    os.makedirs(d)
    with open(os.path.join(d, "main.fer"), "w") as f:
        f.write(text)
    env = dict(os.environ); env.update(ferret_env(libs))
    outp = os.path.join(d, "out.wasm")
    p = subprocess.run([ferret, "-target", "wasm", "-o", outp, "main.fer"], cwd=d, env=env, stdout=subprocess.PIPE, stderr=subprocess.PIPE, text=True, timeout=600)
    problems, rows = [], []
    mod = None
    if p.returncode != 0 or not os.path.exists(outp):
        problems.append("the instruction-selection probe program does not compile for wasm: " + strip_ansi(p.stdout + p.stderr)[-400:])
    else:
        try:
            mod = parse_module(open(outp, "rb").read())
        except Exception as e:
            problems.append("the emitted module cannot be decoded: %r" % (e,))
    shutil.rmtree(base, ignore_errors=True)
    if mod:
        order = sorted([fname_of(*n) for n in names] + ["main"])
        if len(mod["bodies"]) != len(order) or len(mod["ftypes"]) != len(order):
            problems.append("the module defines %d functions, the probe program %d" % (len(mod["bodies"]), len(order)))
            mod = None
        elif mod["exports"].get("main") != (0, mod["nimports"] + order.index("main")):
            problems.append("functions are not laid out in sorted name order (export main = %s)" % (mod["exports"].get("main"),))
            mod = None
    if mod:
        pos = {n: i for i, n in enumerate(order)}
        for kind, op, t1, t2 in names:
            if kind == "mem": continue          # memory round trips go through runtime calls on wasm: not a straight-line row
            fname = fname_of(kind, op, t1, t2)
            k = pos[fname]
            ps, rs = mod["types"][mod["ftypes"][k]]
            nparams = 2 if kind in ("bin", "cmp") else 1
            want_rs = [I32] if kind == "cmp" else [vt_of(t2)]
            if ps != [vt_of(t1)] * nparams or rs != want_rs:
                problems.append("function %s has signature %s -> %s, expected %s -> %s" % (fname, ps, rs, [vt_of(t1)] * nparams, want_rs)); continue
            locs, ins = mod["bodies"][k]
            body = strip_dispatcher(ins, nparams, rs[0]) if ins is not None else None
            if body is None:
                problems.append("function %s is not a single straight-line block in the emitter's dispatcher wrapper: %s" % (fname, ins)); continue
            nlocals = nparams + sum(c for c, _ in locs)
            lean, toks, bad = [], [], False
            for m, imm in body:
                if m == "local.get": lean.append(".get %d" % imm); toks.append("g%d" % imm)
                elif m == "local.set": lean.append(".set %d" % imm); toks.append("s%d" % imm)
                elif m == "i32.const": lean.append(".const .w %d" % (imm % (1 << 32))); toks.append("cw%d" % (imm % (1 << 32)))
                elif m == "i64.const": lean.append(".const .l %d" % (imm % (1 << 64))); toks.append("cl%d" % (imm % (1 << 64)))
                elif m == "return": lean.append(".ret"); toks.append("r")
                elif m in ("local.tee", "drop", "unreachable"): bad = True
                else: lean.append(".op \"%s\"" % m); toks.append("o:" + m)
            if bad:
                problems.append("function %s uses an instruction outside the table format: %s" % (fname, body)); continue
            rows.append((kind, op, t1, t2, nparams, nlocals, lean, toks))
    lines = ["-- REGENERATED by /verif/lib/wasmsel.py from the module emitted by the current /repo compiler; do not edit.", "import FerretVerif.Model.WasmSem", "namespace FerretVerif.Gen",
             "open FerretVerif.QbeSem FerretVerif.WasmSem", "", "def wasmSel : List WRow := ["]
    lines.append(",\n".join("  ⟨.%s, \"%s\", %s, %s, %d, %d, [%s]⟩" % (k, op, ty_lean(t1), ty_lean(t2), np_, nl, ", ".join(lean)) for k, op, t1, t2, np_, nl, lean, toks in rows))
    lines += ["]", "end FerretVerif.Gen", ""]
    write_gen("WasmSel", "\n".join(lines))
    return problems, rows


def check_wasm_selection(rep, pid, tier, stats):
    """C02 tie of Gen.wasmSel / Model.WasmSem to the code: the table is regenerated; the observation programs of lib/qbesel.py are run natively and
    under node and each printed result is compared (a) wasm against native — the property — and (b) against the two models (`fvdriver wasm-row`,
    `qbe-row`); for a wasm row no longer of a proved shape the operands are searched for one on which its stack code differs from the specification."""
    problems, rows = gen_wasmsel()
    qproblems, qrows, _ = qbesel.gen_qbesel(tier, seed(), run=False)
    for pr in problems + qproblems:
        rep.fail("tie:sel:" + hashlib.sha1(pr.encode()).hexdigest()[:10], "instruction-selection table cannot be regenerated: " + pr, {"kind": "broken-obligation", "detail": pr}, no_input=True)
    chunks = qbesel.observation_chunks(tier, seed())
    wobs, wpr = qbesel.run_chunks(chunks, "wasm")
    nobs, npr = qbesel.run_chunks(chunks, "native")
    for pr in wpr + npr:
        rep.fail("tie:selrun:" + hashlib.sha1(pr.encode()).hexdigest()[:10], pr, {"kind": "broken-obligation", "detail": pr}, no_input=True)
    bykey = {(k, op, t1, t2): (np_, nl, toks) for k, op, t1, t2, np_, nl, lean, toks in rows}
    qs, meta = [], []
    for (kind, op, t1, t2, args, wprinted), nat in zip(wobs, nobs):
        ent = bykey.get((kind, op, t1, t2))
        if ent is None: continue
        qs.append("%s %s %s %d %s %d %d %d %s | %s" % (kind, op, t1[1:], t1[0] == "i", t2[1:], t2[0] == "i", ent[0], ent[1], ",".join(str(a) for a in args), " ".join(ent[2])))
        meta.append((kind, op, t1, t2, args, wprinted, nat[5]))
    out = run_driver(["wasm-row"], "\n".join(qs) + "\n").split("\n")[:-1] if qs else []
    other_rows, model_cex, disagree, compared, model_off = {}, {}, 0, 0, 0
    for (kind, op, t1, t2, args, wprinted, nprinted), line in zip(meta, out):
        f = line.split()
        if len(f) != 3:
            rep.fail("tie:wasmsel:driver", "fvdriver wasm-row rejects a regenerated row: %s" % line, {"kind": "broken-obligation"}, no_input=True); break
        shape, spec, ex = f
        key = (kind, op, t1, t2)
        if shape != "ok":
            other_rows.setdefault(key, 0)
            if spec != "none" and ex != "none" and spec != ex and key not in model_cex:
                model_cex[key] = (args, spec, ex)
        if spec == "none": continue
        want = spec if kind != "cmp" else ("true" if spec == "1" else "false")
        compared += 1
        vkey = "sel:%s:%s:%s:%s" % key
        if wprinted != nprinted:
            disagree += 1
            if not any(v[0] == vkey for v in rep.violations):
                rep.fail(vkey, "%s on %s operands %s prints %r natively and %r on wasm (the semantics prescribe %s; emitted stack code: %s; its value in the wasm model: %s)" %
                         (op if kind != "cast" else "cast to " + t2, t1, list(args), nprinted, wprinted, want, " ".join(bykey[key][2]), ex),
                         {"kind": "selection", "function": fname_of(*key), "operands": list(args), "native": nprinted, "wasm": wprinted, "expected": want, "code": bykey[key][2]})
        elif wprinted != want:
            model_off += 1       # both back ends agree with each other but not with the specification: C01's concern, counted here
    for key in other_rows:
        if any(v[0] == "sel:%s:%s:%s:%s" % key for v in rep.violations):
            continue
        code = " ".join(bykey[key][2])
        if key in model_cex:
            args, spec, ex = model_cex[key]
            rep.fail("selmodel:%s:%s:%s:%s" % key, "the stack code now emitted for %s %s->%s (%s) is not of a proved shape and, in the wasm model, yields %s on operands %s where the semantics prescribe %s; "
                     "the two executables did not show a difference" % (key[1], key[2], key[3], code, ex, list(args), spec),
                     {"kind": "broken-obligation", "theorem": "FerretVerif.C02.wasm_sel_table_known_shapes", "row": list(key), "code": code, "operands": list(args)}, no_input=True)
        else:
            rep.fail("selshape:%s:%s:%s:%s" % key, "the stack code now emitted for %s %s->%s (%s) is not of a shape proved correct (theorem wasm_sel_table_known_shapes no longer checks)" % (key[1], key[2], key[3], code),
                     {"kind": "broken-obligation", "theorem": "FerretVerif.C02.wasm_sel_table_known_shapes", "row": list(key), "code": code}, no_input=True)
    stats["selection"] = {"wasm_rows": len(rows), "wasm_rows_of_proved_shape": len(rows) - len(other_rows), "native_rows": len(qrows), "observations_compared": compared,
                          "native_vs_wasm_disagreements": disagree, "agree_but_off_specification": model_off}
    return stats["selection"]
