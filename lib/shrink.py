"""Greedy shrinker for failing Core Ferret programs (S-expressions): deletes statements / declarations while the
failure (as classified by `still_fails`) persists and the reference interpreter still runs the program."""
import re
from corerun import *

STMT_HEADS = {"let", "letinfer", "const", "set", "opset", "inc", "dec", "if", "while", "for", "forarr", "match", "ret", "reterr", "break",
              "continue", "print", "expr", "append", "block", "catchs", "fn", "struct", "enum", "method", "case", "default"}


def parse(s):
    toks = re.findall(r"\(|\)|[^\s()]+", s)
    def rd(i):
        if toks[i] == "(":
            out, i = [], i + 1
            while toks[i] != ")":
                x, i = rd(i)
                out.append(x)
            return out, i + 1
        return toks[i], i + 1
    return rd(0)[0]


def show(t):
    return t if isinstance(t, str) else "(" + " ".join(show(x) for x in t) + ")"


def paths(t, pre=()):
    """paths of deletable sub-lists (statements / decls)"""
    out = []
    if isinstance(t, list):
        for i, x in enumerate(t):
            if isinstance(x, list) and x and isinstance(x[0], str) and x[0] in STMT_HEADS and not (x[0] == "fn" and len(x) > 1 and x[1] == "main"):
                out.append(pre + (i,))
            out += paths(x, pre + (i,))
    return out


def delete(t, path):
    if len(path) == 1:
        return t[:path[0]] + t[path[0] + 1:]
    return t[:path[0]] + [delete(t[path[0]], path[1:])] + t[path[0] + 1:]


def shrink(sx, classify, target="native", max_rounds=60, budget_s=75, max_cands=48):
    """classify(model, result) -> failure class string or None. Returns the shrunk S-expression.
    Best effort within a wall-clock budget: at most `max_cands` candidate deletions are tried per round."""
    import time
    deadline = time.time() + budget_s
    tree = parse(sx)
    m0 = model_run([sx])[0]
    r0 = run_project({"main.fer": m0["text"]}, mode="run", target=target)
    want = classify(m0, r0)
    if want is None:
        return sx
    for _ in range(max_rounds):
        if time.time() > deadline:
            break
        ps = paths(tree)
        # larger deletions first
        ps.sort(key=lambda p: -len(show(_get(tree, p))))
        cands = [delete(tree, p) for p in ps[:max_cands]]
        texts = [show(c) for c in cands]
        ms = model_run(texts)
        jobs, idx = [], []
        for i, m in enumerate(ms):
            if "text" in m and (m["term"] == "exit" or m["term"].startswith("panic")):
                jobs.append({"files": {"main.fer": m["text"]}, "mode": "run", "target": target}); idx.append(i)
        res = run_many(jobs)
        hit = None
        for i, r in zip(idx, res):
            if classify(ms[i], r) == want:
                hit = i; break
        if hit is None:
            break
        tree = cands[hit]
    return show(tree)


def _get(t, path):
    for i in path:
        t = t[i]
    return t
