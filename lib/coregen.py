"""Random, type-directed generator of Core Ferret programs (S-expressions) restricted to construct forms that the
fragment catalogue classifies as sound on the current tree.  Programs terminate by construction (literal loop
bounds, recursion on a decreasing counter), never divide by zero or by -1, and print after almost every step."""
from coredsl import *

SMALL = ["i8", "i16", "i32", "i64", "u8", "u16", "u32", "u64"]
LARGE = ["i128", "u128", "i256", "u256"]


class Gen:
    def __init__(self, rng, feats):
        """feats: set of enabled feature names (see catalogue): large, struct, method, fixed-array, dyn-array,
        closure, optional, match, while, for, recursion, cast, cast-large, ref-struct, narrow-expr"""
        self.rng = rng
        self.feats = feats
        self.types = list(SMALL) + (LARGE if "large" in feats else [])
        self.decls = []
        self.fns = {}         # name -> (param types, ret type)
        self.structs = {}     # name -> [(field, type)]
        self.uid = 0
        self.used_ids = set()
        self.stats = {}

    def count(self, k):
        self.stats[k] = self.stats.get(k, 0) + 1

    def fresh(self, p):
        self.uid += 1
        return "%s%d" % (p, self.uid)

    def ty(self):
        r = self.rng.below(10)
        if r < 5: return self.rng.choice(["i32", "i64", "i32", "u32", "i64"])
        return self.rng.choice(self.types)

    def lit_val(self, t):
        r = self.rng.below(10)
        if r < 3: return self.rng.choice([tmin(t), tmax(t), tmax(t) - 1, tmin(t) + 1, 0, 1])
        if r < 6: return wrap(t, self.rng.below(200) - (100 if signed(t) else 0))
        return wrap(t, self.rng.next() >> self.rng.below(64))

    def idf(self, t):
        self.used_ids.add(t)
        return "id_" + t

    def opaque_lit(self, t, v=None):
        # a quarter of the opaque operands PRINT their value when evaluated, which makes every multi-operand construct
        # (binary operators, argument lists, struct and array literals, method calls) sensitive to evaluation order
        if "eval-order" in self.feats and self.rng.below(4) == 0:
            self.used_trs = getattr(self, "used_trs", set()) | {t}
            self.count("tracer")
            return Call("tr_" + t, I(t, self.lit_val(t) if v is None else v))
        return Call(self.idf(t), I(t, self.lit_val(t) if v is None else v))

    # ---- expressions of integer type t over the variables in scope
    def expr(self, t, scope, depth, nocast=False):
        r = self.rng.below(100)
        if nocast and 72 <= r < 84:
            r = 30
        vars_t = [x for x, xt in scope if xt == t]
        if depth <= 0 or r < 20:
            if vars_t and self.rng.below(4):
                return V(self.rng.choice(vars_t))
            return self.opaque_lit(t)
        if r < 62:
            op = self.rng.choice(["add", "sub", "mul", "add", "sub"])
            self.count("op-" + op)
            return Bin(op, t, self.expr(t, scope, depth - 1), self.expr(t, scope, depth - 1))
        if r < 72:
            op = self.rng.choice(["div", "rem"])
            self.count("op-" + op)
            d = self.rng.choice([1, 2, 3, 5, 7, 10, 100, tmax(t)])
            return Bin(op, t, self.expr(t, scope, depth - 1), self.opaque_lit(t, min(d, tmax(t))))
        if r < 84 and "cast" in self.feats:
            pool = self.types if ("cast-large" in self.feats and self.types is not None and len(self.types) > len(SMALL)) else SMALL
            if t in LARGE and "cast-large" not in self.feats:
                pool = []
            t2 = self.rng.choice(pool) if pool else t
            if t2 != t:
                self.count("cast")
                # the operand of a cast is never itself a cast: directly nested casts are miscompiled (catalogue: cast-nested)
                return Cast(t2, t, self.expr(t2, scope, depth - 1, nocast=True))
        if r < 90 and signed(t):
            self.count("neg")
            return Neg(t, self.expr(t, scope, depth - 1))
        fs = [f for f, (ps, rt) in self.fns.items() if rt == t and all(pt in self.types for pt in ps)]
        if fs and r < 97:
            f = self.rng.choice(fs)
            self.count("call")
            return Call(f, *[self.expr(pt, scope, depth - 1) for pt in self.fns[f][0]])
        return V(self.rng.choice(vars_t)) if vars_t else self.opaque_lit(t)

    def cond(self, scope, depth):
        r = self.rng.below(10)
        if depth > 0 and r < 2:
            return Bin(self.rng.choice(["land", "lor"]), "bool", self.cond(scope, depth - 1), self.cond(scope, depth - 1))
        if depth > 0 and r < 3:
            return Not(self.cond(scope, depth - 1))
        t = self.ty()
        op = self.rng.choice(["eq", "ne", "lt", "le", "gt", "ge"])
        self.count("cmp-" + ("narrow" if bits(t) < 32 else "wide"))
        return Bin(op, t, self.expr(t, scope, 2), self.expr(t, scope, 2))

    # ---- statements
    def stmts(self, scope, n, depth, in_loop=False):
        out = []
        scope = list(scope)
        for _ in range(n):
            r = self.rng.below(100)
            if depth <= 0:
                r = r % 44          # leaves: simple statements only
            ints = [(x, t) for x, t in scope if t in self.types and x[0] not in 'wf']
            if r < 22 or not ints:
                t = self.ty()
                x = self.fresh("v")
                out.append(Let(x, t, self.expr(t, scope, 3)))
                out.append(Print(V(x)))
                scope.append((x, t))
            elif r < 34:
                x, t = self.rng.choice(ints)
                out.append(Set(V(x), self.expr(t, scope, 3)))
                out.append(Print(V(x)))
            elif r < 40:
                x, t = self.rng.choice(ints)
                op = self.rng.choice(["add", "sub", "mul"])
                y = self.fresh("k")
                out.append(Let(y, t, self.expr(t, scope, 1)))
                out.append(OpSet(op, t, V(x), V(y)))
                out.append(Print(V(x)))
                self.count("opassign")
            elif r < 44:
                x, t = self.rng.choice(ints)
                out.append(Inc(t, V(x)) if self.rng.below(2) else Dec(t, V(x)))
                out.append(Print(V(x)))
            elif r < 56 and depth > 0:
                self.count("if")
                thn = self.stmts(scope, 1 + self.rng.below(3), depth - 1, in_loop)
                els = self.stmts(scope, self.rng.below(3), depth - 1, in_loop) if self.rng.below(2) else []
                out.append(If(self.cond(scope, 2), thn, els))
            elif r < 62 and depth > 0 and "while" in self.feats and "loops-inline" in self.feats:
                self.count("while")
                i = self.fresh("w")
                n_it = 1 + self.rng.below(5)
                body = self.stmts(scope + [(i, "i32")], 1 + self.rng.below(3), depth - 1, True)
                if self.rng.below(4) == 0:
                    body.append(If(Bin("eq", "i32", V(i), I("i32", n_it // 2)), [Inc("i32", V(i)), Continue()]))
                if self.rng.below(5) == 0:
                    body.append(If(Bin("gt", "i32", V(i), I("i32", n_it - 1)), [Break()]))
                out.append(Let(i, "i32", I("i32", 0)))
                out.append(While(Bin("lt", "i32", V(i), I("i32", n_it)), *body, Inc("i32", V(i))))
            elif r < 68 and depth > 0 and "for" in self.feats and "loops-inline" in self.feats and not in_loop:
                self.count("for")
                i = self.fresh("f")
                t = self.rng.choice(["i32", "i64", "u32", "i32"])
                lo, hi = self.fresh("lo"), self.fresh("hi")
                a = self.rng.below(5)
                out.append(Let(lo, t, I(t, a)))
                out.append(Let(hi, t, I(t, a + self.rng.below(5))))
                body = self.stmts(scope + [(i, t)], 1 + self.rng.below(2), 0 if "for-nested" not in self.feats else depth - 1, True) + [Print(V(i))]
                out.append(For(i, t, V(lo), V(hi), body, incl=self.rng.below(3) == 0))
            elif r < 74 and "struct" in self.feats and self.structs:
                out += self.struct_block(scope)
            elif r < 80 and "fixed-array" in self.feats:
                out += self.fixed_array_block(scope)
            elif r < 86 and "dyn-array" in self.feats:
                out += self.dyn_array_block(scope)
            elif r < 89 and depth > 0 and "match" in self.feats and ints:
                x, t = self.rng.choice(ints)
                if t in SMALL and bits(t) >= 32:
                    self.count("match")
                    cases = [(I(t, wrap(t, k)), self.stmts(scope, 1, depth - 1, in_loop)) for k in sorted({self.rng.below(4) for _ in range(2)})]
                    out.append(Match(V(x), cases, default=self.stmts(scope, 1, depth - 1, in_loop) if self.rng.below(3) else None))
            elif r < 92 and "closure" in self.feats and ints:
                x, t = self.rng.choice(ints)
                f = self.fresh("cl")
                self.count("closure")
                out.append(LetInfer(f, Lam([("a", t)], t, Ret(Bin(self.rng.choice(["add", "sub", "mul"]), t, V(x), V("a"))))))
                out.append(Print(Call(f, self.expr(t, scope, 1))))
                out.append(Set(V(x), self.expr(t, scope, 1)))
                out.append(Print(Call(f, self.expr(t, scope, 1))))
            elif r < 95 and "optional" in self.feats:
                t = self.rng.choice(["i32", "i64", "u8", "i16"])
                o, d, g = self.fresh("o"), self.fresh("d"), self.fresh("g")
                self.count("optional")
                out.append(Let(o, TO(t), self.expr(t, scope, 1) if self.rng.below(2) else NoneE()))
                out.append(Let(d, t, self.expr(t, scope, 1)))
                out.append(Let(g, t, OrElse(V(o), V(d))))
                out.append(Print(V(g)))
            else:
                t = self.ty()
                out.append(Print(self.expr(t, scope, 3)) if False else Let(self.fresh("p"), t, self.expr(t, scope, 3)))
        return out

    def struct_block(self, scope):
        name = self.rng.choice(list(self.structs))
        fields = self.structs[name]
        s = self.fresh("s")
        written = list(fields)
        if "eval-order-struct" in self.feats and self.rng.below(2):        # initialisers in another order than the declaration
            for a_ in range(len(written) - 1, 0, -1):
                b_ = self.rng.below(a_ + 1)
                written[a_], written[b_] = written[b_], written[a_]
            self.count("struct-permuted")
        out = [Let(s, TS(name), SLitL(name, [(f, self.expr(t, scope, 1)) for f, t in written]))]
        self.count("struct")
        f, t = self.rng.choice(fields)
        out.append(Set(Fld(V(s), f), self.expr(t, scope + [], 2)))
        out.append(Print(Fld(V(s), f)))
        if self.rng.below(2):
            c = self.fresh("c")
            out.append(Let(c, TS(name), V(s)))
            f2, t2 = self.rng.choice(fields)
            out.append(Set(Fld(V(c), f2), self.expr(t2, scope, 1)))
            for g, _ in fields:
                out.append(Print(Fld(V(s), g)))
                out.append(Print(Fld(V(c), g)))
        ms = [(m, k, ps, rt) for (sn, m, k, ps, rt) in self.methods if sn == name] if hasattr(self, "methods") else []
        for m, k, ps, rt in ms:
            if self.rng.below(2):
                call = MCall(V(s), name, m, *[self.expr(pt, scope, 1) for pt in ps])
                out.append(Print(call) if rt != "void" else ExprS(call))
                self.count("method-" + k)
        for g, _ in fields:
            out.append(Print(Fld(V(s), g)))
        if "struct-fn" in self.feats:
            fs = [fn for fn, (ps, rt) in self.fns.items() if ps == [TS(name)]]
            for fn in fs:
                out.append(Print(Call(fn, V(s))))
                out.append(Print(Fld(V(s), fields[0][0])))
        return out

    def fixed_array_block(self, scope):
        t = self.ty()
        n = 2 + self.rng.below(4)
        a = self.fresh("a")
        self.count("fixed-array")
        out = [Let(a, TA(n, t), ALit(*[self.expr(t, scope, 1) for _ in range(n)]))]
        for _ in range(2):
            i = self.rng.below(2 * n) - n      # -n .. n-1, all valid (negative counts from the end)
            out.append(Set(Idx(V(a), I("i32", i)), self.expr(t, scope, 2)))
        if self.rng.below(2):
            b = self.fresh("b")
            out.append(Let(b, TA(n, t), V(a)))
            out.append(Set(Idx(V(b), I("i32", 0)), self.expr(t, scope, 1)))
            out.append(Print(Idx(V(b), I("i32", 0))))
        for i in range(n):
            out.append(Print(Idx(V(a), I("i32", i if self.rng.below(3) else i - n))))
        out.append(Print(Len(V(a))))
        return out

    def dyn_array_block(self, scope):
        t = self.rng.choice(["i32", "i64", "i32", "u8", "i16", "u64"])
        n = 1 + self.rng.below(4)
        d = self.fresh("d")
        self.count("dyn-array")
        self.used_ids.add("i32")
        out = [Let(d, TD(t), ALit(*[self.expr(t, scope, 1) for _ in range(n)]))]
        ln = n
        for _ in range(self.rng.below(4)):
            out.append(Append(V(d), self.expr(t, scope, 1)))
            ln += 1
        out.append(Print(Len(V(d))))
        for _ in range(3):
            i = self.rng.below(2 * ln) - ln
            if self.rng.below(3) == 0:
                out.append(Set(Idx(V(d), Call("id_i32", I("i32", i))), self.expr(t, scope, 1)))
            out.append(Print(Idx(V(d), Call("id_i32", I("i32", i)))))
        if self.rng.below(3) == 0:
            e = self.fresh("e")
            out.append(LetInfer(e, V(d)))
            out.append(Append(V(e), self.expr(t, scope, 1)))
            out.append(Print(Len(V(d))))
        return out

    # ---- whole program
    def program(self):
        self.methods = []
        nfn = 1 + self.rng.below(3)
        for _ in range(nfn):
            rt = self.ty()
            ps = [self.ty() for _ in range(1 + self.rng.below(3))]
            f = self.fresh("fn")
            params = [("p%d" % i, pt) for i, pt in enumerate(ps)]
            body = self.stmts_pure(params, rt)
            self.decls.append(Fn(f, params, rt, *body))
            self.fns[f] = (ps, rt)
        for kind in ("while", "for"):
            if kind in self.feats:
                for _ in range(1 + self.rng.below(2)):
                    self.loop_fn(kind)
        if "recursion" in self.feats and self.rng.below(2):
            t = self.rng.choice(["i32", "i64", "u32", "u64"])
            f = self.fresh("rec")
            step = self.rng.choice(["add", "mul"])
            self.decls.append(Fn(f, [("n", "i32"), ("acc", t)], t,
                                 If(Bin("le", "i32", V("n"), I("i32", 0)), [Ret(V("acc"))]),
                                 Ret(Call(f, Bin("sub", "i32", V("n"), I("i32", 1)), Bin(step, t, V("acc"), Cast("i32", t, Bin("add", "i32", V("n"), I("i32", 2))))))))
            self.fns_rec = (f, t)
        if "struct" in self.feats:
            for _ in range(1 + self.rng.below(2)):
                name = self.fresh("S").upper()
                fields = [("F%d" % i, self.ty()) for i in range(1 + self.rng.below(4))]
                self.structs[name] = fields
                self.decls.append(Struct(name, *fields))
                if "method" in self.feats:
                    f0, t0 = fields[0]
                    m = self.fresh("bump")
                    self.decls.append(Method(name, "mut", "self", m, [("d", t0)], "void", Set(Fld(V("self"), f0), Bin("add", t0, Fld(V("self"), f0), V("d")))))
                    self.methods.append((name, m, "mut", [t0], "void"))
                    g = self.fresh("get")
                    fl, tl = fields[-1]
                    kind = self.rng.choice(["val", "ref"]) if "method-val" in self.feats else "ref"
                    self.decls.append(Method(name, kind, "self", g, [("k", tl)], tl, Ret(Bin("sub", tl, Fld(V("self"), fl), V("k")))))
                    self.methods.append((name, g, kind, [tl], tl))
                if "struct-fn" in self.feats:
                    f = self.fresh("sf")
                    f0, t0 = fields[0]
                    self.decls.append(Fn(f, [("s", TS(name))], t0, Set(Fld(V("s"), f0), Bin("add", t0, Fld(V("s"), f0), Call(self.idf(t0), I(t0, 1)))), Ret(Fld(V("s"), f0))))
                    self.fns[f] = ([TS(name)], t0)
        body = self.stmts([], 10 + self.rng.below(10), 2)
        for f, t in getattr(self, "loop_fns", []):
            for _ in range(1 + self.rng.below(2)):
                self.used_ids.add(t)
                body.append(Print(Call(f, I("i32", self.rng.below(7)), Call("id_" + t, I(t, self.lit_val(t))))))
        if getattr(self, "fns_rec", None):
            f, t = self.fns_rec
            self.used_ids.add(t)
            body.append(Print(Call(f, I("i32", 1 + self.rng.below(12)), Call("id_" + t, I(t, 1)))))
        ids = [opaque(t, "id_" + t) for t in sorted(self.used_ids)]
        ids += [Fn("tr_" + t, [("x", t)], t, Print(V("x")), Ret(V("x"))) for t in sorted(getattr(self, "used_trs", set()))]
        return Prog(*(ids + self.decls + [Main(*body)]))

    def loop_fn(self, kind):
        """a small function whose body is one loop over few variables (register pressure kept low: the vendored
        QBE's register allocator asserts on loops in large functions — finding F23)"""
        saved = self.types
        self.types = list(SMALL)          # loops over 128/256-bit values trip the vendored QBE's allocator (F23)
        try:
            self._loop_fn(kind)
        finally:
            self.types = saved

    def _loop_fn(self, kind):
        t = self.ty()
        f = self.fresh("lp")
        scope = [("acc", t), ("a", t)]
        step = lambda: Set(V("acc"), Bin(self.rng.choice(["add", "sub", "mul"]), t, V("acc"), self.expr(t, scope, 1)))
        if kind == "while":
            body = [step()]
            if self.rng.below(3) == 0:
                body.append(If(Bin("eq", "i32", V("i"), I("i32", 1)), [Inc("i32", V("i")), Continue()]))
            if self.rng.below(3) == 0:
                body.append(If(self.cond(scope, 0), [Break()]))
            if self.rng.below(2):
                body.append(step())
            loop = [Let("i", "i32", I("i32", 0)), While(Bin("lt", "i32", V("i"), V("n")), *body, Inc("i32", V("i")))]
            self.count("while")
        else:
            it = self.rng.choice(["i32", "i32", "i64", "u32"])
            body = [step()]
            if it == t and self.rng.below(2):
                body.append(Set(V("acc"), Bin("add", t, V("acc"), V("i"))))
            if self.rng.below(4) == 0:
                body.append(If(self.cond(scope, 0), [Break()]))
            loop = [Let("lo", it, I(it, self.rng.below(3))), Let("hi", it, Cast("i32", it, V("n"))) if it != "i32" else Let("hi", it, V("n")),
                    For("i", it, V("lo"), V("hi"), body, incl=self.rng.below(3) == 0)]
            self.count("for")
        self.decls.append(Fn(f, [("n", "i32"), ("a", t)], t, Let("acc", t, V("a")), *loop, Ret(V("acc"))))
        self.loop_fns = getattr(self, "loop_fns", []) + [(f, t)]

    def stmts_pure(self, params, rt):
        """function body without output: a few lets / ifs, then return"""
        scope = [(x, t) for x, t in params if t in self.types]
        out = []
        for _ in range(self.rng.below(3)):
            t = self.ty()
            x = self.fresh("l")
            out.append(Let(x, t, self.expr(t, scope, 2)))
            scope.append((x, t))
        if self.rng.below(2):
            out.append(If(self.cond(scope, 1), [Ret(self.expr(rt, scope, 2))]))
        out.append(Ret(self.expr(rt, scope, 3)))
        return out


ALL_FEATS = {"large", "struct", "method", "method-val", "struct-fn", "fixed-array", "dyn-array", "closure", "optional", "match", "while", "for",
             "recursion", "cast", "cast-large"}
WASM_FEATS = {"struct", "method", "method-val", "struct-fn", "fixed-array", "dyn-array", "match", "while", "for", "recursion", "cast"}
