"""Fragment catalogue: every construct FORM the whole-compiler generators may emit, each with a small probe
program.  Every check first classifies each form on the CURRENT tree (sound / rejected / miscompiled) by running
its probe against the Lean reference interpreter; generators draw only from forms that are sound now, and the
classification is compared with the committed baseline catalogue_baseline.json (see DESIGN section 6)."""
from coredsl import *

PROBES = []   # (name, features, program)


def probe(name, *decls, feats=()):
    PROBES.append((name, tuple(feats), Prog(*decls)))


def arith_probe(t):
    a, b = tmax(t), 3
    body = [Let("x", t, Call("id", I(t, a))), Let("y", t, Call("id", I(t, b))),
            Let("s", t, Bin("add", t, V("x"), V("y"))), Print(V("s")),
            Let("d", t, Bin("sub", t, Call("id", I(t, tmin(t))), V("y"))), Print(V("d")),
            Let("m", t, Bin("mul", t, V("x"), V("y"))), Print(V("m")),
            Let("q", t, Bin("div", t, V("x"), V("y"))), Print(V("q")),
            Let("r", t, Bin("rem", t, V("x"), V("y"))), Print(V("r"))]
    if signed(t):
        body += [Let("nq", t, Bin("div", t, Call("id", I(t, -7)), Call("id", I(t, 2)))), Print(V("nq")),
                 Let("nr", t, Bin("rem", t, Call("id", I(t, -7)), Call("id", I(t, 2)))), Print(V("nr")),
                 Let("pr", t, Bin("rem", t, Call("id", I(t, 7)), Call("id", I(t, -2)))), Print(V("pr")),
                 Let("ng", t, Neg(t, V("y"))), Print(V("ng"))]
    body += [If(Bin("lt", t, V("y"), V("x")), [Print(I("i32", 1))], [Print(I("i32", 0))]),
             If(Bin("ge", t, Call("id", I(t, tmin(t))), V("x")), [Print(I("i32", 1))], [Print(I("i32", 0))]),
             If(Bin("eq", t, V("x"), V("x")), [Print(I("i32", 1))], [Print(I("i32", 0))])]
    return [Fn("id", [("v", t)], t, Ret(V("v"))), Main(*body)]


for _t in INT_TYPES:
    probe("arith-" + _t, *arith_probe(_t), feats=("arith", _t))

for _t in ["i8", "i16", "u8", "u16"]:
    # narrow arithmetic feeding a comparison / a widening cast directly (register width vs declared width)
    probe("narrow-cmp-" + _t, Fn("id", [("v", _t)], _t, Ret(V("v"))),
          Main(Let("x", _t, Call("id", I(_t, tmax(_t)))), Let("y", _t, Call("id", I(_t, 1))),
               If(Bin("gt", _t, Bin("add", _t, V("x"), V("y")), Call("id", I(_t, 0))), [Print(I("i32", 1))], [Print(I("i32", 0))]),
               Let("w", "i64", Cast(_t, "i64", Bin("add", _t, V("x"), V("y")))), Print(V("w")),
               Let("z", _t, Bin("sub", _t, Call("id", I(_t, tmin(_t))), V("y"))),
               If(Bin("eq", _t, Bin("sub", _t, Call("id", I(_t, tmin(_t))), V("y")), V("z")), [Print(I("i32", 1))], [Print(I("i32", 0))])),
          feats=("narrow-expr", _t))

for _s, _d in [("i32", "i64"), ("i64", "i32"), ("i32", "u8"), ("u8", "i32"), ("i8", "u64"), ("u32", "i16"), ("i64", "i8"), ("u64", "i64"),
               ("i16", "i32"), ("u16", "u32"), ("i32", "u32"), ("u32", "i32")]:
    probe("cast-%s-%s" % (_s, _d), Fn("id", [("v", _s)], _s, Ret(V("v"))),
          Main(Let("a", _s, Call("id", I(_s, tmax(_s)))), Let("b", _d, Cast(_s, _d, V("a"))), Print(V("b")),
               Let("c", _s, Call("id", I(_s, tmin(_s)))), Let("d", _d, Cast(_s, _d, V("c"))), Print(V("d")),
               Let("e", _s, Call("id", I(_s, wrap(_s, 200)))), Let("f", _d, Cast(_s, _d, V("e"))), Print(V("f"))),
          feats=("cast", _s, _d))

for _s, _d in [("i64", "i128"), ("i128", "i64"), ("u64", "u256"), ("i128", "i256"), ("u128", "u64"), ("i32", "i128"), ("i256", "i32")]:
    probe("cast-%s-%s" % (_s, _d), Fn("id", [("v", _s)], _s, Ret(V("v"))),
          Main(Let("a", _s, Call("id", I(_s, tmax(_s)))), Let("b", _d, Cast(_s, _d, V("a"))), Print(V("b")),
               Let("c", _s, Call("id", I(_s, tmin(_s)))), Let("d", _d, Cast(_s, _d, V("c"))), Print(V("d"))),
          feats=("cast-large", _s, _d))

probe("cast-nested", Fn("id32", [("v", "u32")], "u32", Ret(V("v"))), Fn("id8", [("v", "i8")], "i8", Ret(V("v"))),
      Main(Let("a", "i64", Cast("i32", "i64", Cast("u32", "i32", Call("id32", I("u32", 4294967295))))), Print(V("a")),
           Let("b", "i16", I("i16", 32766)), Set(V("b"), Cast("u8", "i16", Cast("i8", "u8", Neg("i8", Call("id8", I("i8", -44)))))), Print(V("b"))),
      feats=("cast-nested",))

probe("cast-large-inline-compare", Fn("idu", [("v", "u256")], "u256", Ret(V("v"))), Fn("idi", [("v", "i256")], "i256", Ret(V("v"))),
      Main(If(Bin("le", "i256", Cast("u256", "i256", Call("idu", I("u256", 500))), Call("idi", I("i256", 86))), [Print(I("i32", 1))], [Print(I("i32", 0))])),
      feats=("cast-large-inline",))

probe("bool-ops", Fn("t", [], "bool", Ret(B(True))), Fn("f", [], "bool", Ret(B(False))),
      Main(If(Bin("land", "bool", Call("t"), Call("f")), [Print(I("i32", 1))], [Print(I("i32", 0))]),
           If(Bin("lor", "bool", Call("f"), Call("t")), [Print(I("i32", 1))], [Print(I("i32", 0))]),
           If(Not(Call("f")), [Print(I("i32", 1))], [Print(I("i32", 0))]),
           Let("b", "bool", Bin("lt", "i32", I("i32", 1), I("i32", 2))), Print(V("b")), Print(Call("f"))), feats=("bool",))

probe("string-print", Main(Print(Str("hello")), Let("s", "str", Str("a b")), Print(V("s")),
                           If(Bin("eq", "str", V("s"), Str("a b")), [Print(I("i32", 1))], [Print(I("i32", 0))]),
                           Let("n", "i32", Len(V("s"))), Print(V("n"))), feats=("str",))

probe("if-else-chain", Fn("cls", [("x", "i32")], "i32",
                          If(Bin("lt", "i32", V("x"), I("i32", 0)), [Ret(I("i32", -1))], [If(Bin("eq", "i32", V("x"), I("i32", 0)), [Ret(I("i32", 0))], [Ret(I("i32", 1))])])),
      Main(Print(Call("cls", I("i32", -5))), Print(Call("cls", I("i32", 0))), Print(Call("cls", I("i32", 9)))), feats=("if",))

probe("while-loop", Main(Let("i", "i32", I("i32", 0)), Let("s", "i32", I("i32", 0)),
                         While(Bin("lt", "i32", V("i"), I("i32", 5)), OpSet("add", "i32", V("s"), V("i")), Inc("i32", V("i"))),
                         Print(V("s")), Print(V("i"))), feats=("while",))

probe("while-break-continue", Main(Let("i", "i32", I("i32", 0)), Let("s", "i32", I("i32", 0)),
                                   While(B(True), Inc("i32", V("i")),
                                         If(Bin("eq", "i32", Bin("rem", "i32", V("i"), I("i32", 2)), I("i32", 0)), [Continue()]),
                                         If(Bin("gt", "i32", V("i"), I("i32", 7)), [Break()]),
                                         OpSet("add", "i32", V("s"), V("i"))),
                                   Print(V("s")), Print(V("i"))), feats=("while", "break"))

probe("for-range-typed", Main(Let("lo", "i32", I("i32", 2)), Let("hi", "i32", I("i32", 6)), Let("s", "i32", I("i32", 0)),
                              For("i", "i32", V("lo"), V("hi"), [OpSet("add", "i32", V("s"), V("i")), Print(V("i"))]),
                              For("j", "i32", V("lo"), V("hi"), [OpSet("mul", "i32", V("s"), I("i32", 2))], incl=True), Print(V("s"))), feats=("for",))

probe("for-range-literal", Main(For("i", "i32", I("i32", 0), I("i32", 3), [Print(V("i"))])), feats=("for-literal",))

probe("compound-assign", Main(Let("x", "i64", I("i64", 10)), OpSet("add", "i64", V("x"), I("i64", 5)), OpSet("sub", "i64", V("x"), I("i64", 3)),
                              OpSet("mul", "i64", V("x"), I("i64", 4)), OpSet("div", "i64", V("x"), I("i64", 5)), OpSet("rem", "i64", V("x"), I("i64", 7)),
                              Print(V("x")), Inc("i64", V("x")), Dec("i64", V("x")), Dec("i64", V("x")), Print(V("x"))), feats=("opassign",))

probe("recursion", Fn("fact", [("n", "i64")], "i64", If(Bin("le", "i64", V("n"), I("i64", 1)), [Ret(I("i64", 1))]), Ret(Bin("mul", "i64", V("n"), Call("fact", Bin("sub", "i64", V("n"), I("i64", 1)))))),
      Fn("fib", [("n", "i32")], "i32", If(Bin("lt", "i32", V("n"), I("i32", 2)), [Ret(V("n"))]), Ret(Bin("add", "i32", Call("fib", Bin("sub", "i32", V("n"), I("i32", 1))), Call("fib", Bin("sub", "i32", V("n"), I("i32", 2)))))),
      Main(Print(Call("fact", I("i64", 20))), Print(Call("fact", I("i64", 21))), Print(Call("fib", I("i32", 15)))), feats=("recursion",))

probe("eval-order-args", Fn("tr", [("k", "i32")], "i32", Print(V("k")), Ret(V("k"))), Fn("add3", [("a", "i32"), ("b", "i32"), ("c", "i32")], "i32", Ret(Bin("add", "i32", V("a"), Bin("add", "i32", V("b"), V("c"))))),
      Main(Let("r", "i32", Call("add3", Call("tr", I("i32", 1)), Call("tr", I("i32", 2)), Call("tr", I("i32", 3)))), Print(V("r")),
           Let("q", "i32", Bin("sub", "i32", Call("tr", I("i32", 10)), Call("tr", I("i32", 4)))), Print(V("q"))), feats=("eval-order",))

def _narrow_edges(t):
    """every operand pair whose exact result leaves an 8/16-bit type, on operands the compiler cannot see through, observed as a
    temporary: printed, widened, compared (the three places where a register wider than the type would show)"""
    MIN, MAX = tmin(t), tmax(t)
    if signed(t):
        edge = [("add", MAX, 1), ("add", MAX, MAX), ("add", MIN, -1), ("sub", MIN, 1), ("sub", MAX, -1), ("sub", 0, MIN), ("mul", MAX, 2), ("mul", MIN, -1), ("mul", MIN, 2), ("mul", MAX, MAX),
                ("div", MIN, -1), ("div", MAX, -1), ("div", MIN, 2), ("rem", MIN, -1), ("rem", MIN, 3), ("rem", MAX, -2)]
    else:
        edge = [("add", MAX, 1), ("add", MAX, MAX), ("sub", 0, 1), ("sub", 1, MAX), ("mul", MAX, 2), ("mul", MAX, MAX), ("div", MAX, 1), ("div", MAX, MAX), ("rem", MAX, 2)]
    body = []
    for k, (op, a, b) in enumerate(edge):
        e = lambda: Bin(op, t, Call("id", I(t, a)), Call("id", I(t, b)))
        body += [Print(e()), Print(Cast(t, "i64", e())), If(Bin("lt", t, e(), Call("id", I(t, 0))), [Print(I("i32", 1))], [Print(I("i32", 0))]),
                 Let("s%d" % k, t, e()), Print(V("s%d" % k))]
    return [Fn("id", [("v", t)], t, Ret(V("v"))), Main(*body)]


for _t in ["i8", "i16", "u8", "u16"]:
    probe("narrow-edges-" + _t, *_narrow_edges(_t), feats=("narrow-edges", _t))

_TR = Fn("tr", [("k", "i32")], "i32", Print(V("k")), Ret(V("k")))
_TR64 = Fn("tr64", [("k", "i64")], "i64", Print(V("k")), Ret(V("k")))
# struct literals: initialisers run in the order they are WRITTEN, whatever the declaration order (also nested, as argument, as result)
probe("eval-order-struct", _TR, _TR64, Struct("Q", ("A", "i32"), ("B", "i64"), ("C", "i32")), Struct("W", ("P", TS("Q")), ("N", "i32"), ("M", "i32")),
      Fn("sumq", [("q", TS("Q"))], "i64", Ret(Bin("add", "i64", Cast("i32", "i64", Bin("add", "i32", Fld(V("q"), "A"), Fld(V("q"), "C"))), Fld(V("q"), "B")))),
      Fn("mkq", [], TS("Q"), Ret(SLitL("Q", [("B", Call("tr64", I("i64", 41))), ("C", Call("tr", I("i32", 42))), ("A", Call("tr", I("i32", 43)))]))),
      Main(Let("q", TS("Q"), SLitL("Q", [("A", Call("tr", I("i32", 1))), ("B", Call("tr64", I("i64", 2))), ("C", Call("tr", I("i32", 3)))])), Print(Fld(V("q"), "A")), Print(Fld(V("q"), "B")), Print(Fld(V("q"), "C")),
           Let("r", TS("Q"), SLitL("Q", [("C", Call("tr", I("i32", 11))), ("A", Call("tr", I("i32", 12))), ("B", Call("tr64", I("i64", 13)))])), Print(Fld(V("r"), "A")), Print(Fld(V("r"), "B")), Print(Fld(V("r"), "C")),
           Let("w", TS("W"), SLitL("W", [("M", Call("tr", I("i32", 20))), ("P", SLitL("Q", [("B", Call("tr64", I("i64", 21))), ("A", Call("tr", I("i32", 22))), ("C", Call("tr", I("i32", 23)))])), ("N", Call("tr", I("i32", 24)))])),
           Print(Fld(V("w"), "N")), Print(Fld(V("w"), "M")), Print(Fld(Fld(V("w"), "P"), "A")), Print(Fld(Fld(V("w"), "P"), "B")), Print(Fld(Fld(V("w"), "P"), "C")),
           Print(Call("sumq", SLitL("Q", [("C", Call("tr", I("i32", 31))), ("B", Call("tr64", I("i64", 32))), ("A", Call("tr", I("i32", 33)))]))),
           Let("m", TS("Q"), Call("mkq")), Print(Fld(V("m"), "A")), Print(Fld(V("m"), "B")), Print(Fld(V("m"), "C"))), feats=("eval-order-struct",))

probe("eval-order-array", _TR, Main(Let("a", TA(3, "i32"), ALit(Call("tr", I("i32", 1)), Call("tr", I("i32", 2)), Call("tr", I("i32", 3)))), Print(Idx(V("a"), I("i32", 0))), Print(Idx(V("a"), I("i32", 2))),
                                    Let("d", TD("i32"), ALit(Call("tr", I("i32", 4)), Call("tr", I("i32", 5)))), Print(Idx(V("d"), Call("tr", I("i32", 1)))), Print(Len(V("d"))),
                                    Print(Bin("sub", "i32", Idx(V("a"), I("i32", 1)), Bin("mul", "i32", Call("tr", I("i32", 6)), Call("tr", I("i32", 7)))))), feats=("eval-order-array",))

probe("eval-order-method", _TR, Struct("K", ("V", "i32")), Method("K", "ref", "self", "add2", [("a", "i32"), ("b", "i32")], "i32", Ret(Bin("add", "i32", Fld(V("self"), "V"), Bin("sub", "i32", V("a"), V("b"))))),
      Fn("three", [("a", "i32"), ("b", "i32"), ("c", "i32")], "i32", Ret(Bin("sub", "i32", V("a"), Bin("sub", "i32", V("b"), V("c"))))),
      Main(Let("k", TS("K"), SLit("K", V=I("i32", 100))), Print(MCall(V("k"), "K", "add2", Call("tr", I("i32", 1)), Call("tr", I("i32", 2)))),
           Print(Call("three", Call("tr", I("i32", 3)), Call("three", Call("tr", I("i32", 4)), Call("tr", I("i32", 5)), Call("tr", I("i32", 6))), Call("tr", I("i32", 7))))), feats=("eval-order-method",))

probe("struct-basic", Struct("P", ("X", "i32"), ("Y", "i64")),
      Main(Let("p", TS("P"), SLit("P", X=I("i32", 3), Y=I("i64", -4))), Print(Fld(V("p"), "X")), Print(Fld(V("p"), "Y")),
           Set(Fld(V("p"), "X"), Bin("add", "i32", Fld(V("p"), "X"), I("i32", 10))), Print(Fld(V("p"), "X")),
           Let("q", TS("P"), V("p")), Set(Fld(V("q"), "Y"), I("i64", 99)), Print(Fld(V("p"), "Y")), Print(Fld(V("q"), "Y"))), feats=("struct",))

probe("struct-pass-by-value", Struct("P", ("X", "i32"), ("Y", "i32")),
      Fn("bump", [("p", TS("P"))], "i32", Set(Fld(V("p"), "X"), I("i32", 100)), Ret(Bin("add", "i32", Fld(V("p"), "X"), Fld(V("p"), "Y")))),
      Fn("mk", [("a", "i32")], TS("P"), Ret(SLit("P", X=V("a"), Y=Bin("mul", "i32", V("a"), I("i32", 2))))),
      Main(Let("p", TS("P"), Call("mk", I("i32", 7))), Print(Call("bump", V("p"))), Print(Fld(V("p"), "X")), Print(Fld(V("p"), "Y"))), feats=("struct-fn",))

probe("method-value-recv", Struct("P", ("X", "i32"), ("Y", "i64")),
      Method("P", "val", "p", "getx", [], "i32", Ret(Fld(V("p"), "X"))), Method("P", "val", "p", "sum", [("k", "i64")], "i64", Ret(Bin("add", "i64", Fld(V("p"), "Y"), V("k")))),
      Main(Let("p", TS("P"), SLit("P", X=I("i32", 3), Y=I("i64", 40))), Print(MCall(V("p"), "P", "getx")), Print(MCall(V("p"), "P", "sum", I("i64", 2)))), feats=("method-val",))

probe("method-value-recv-1field", Struct("C", ("V", "i32")),
      Method("C", "val", "c", "get", [], "i32", Ret(Fld(V("c"), "V"))),
      Main(Let("c", TS("C"), SLit("C", V=I("i32", 5))), Print(MCall(V("c"), "C", "get"))), feats=("method-val1",))

probe("method-mut-recv", Struct("C", ("V", "i32")),
      Method("C", "mut", "c", "inc", [], "void", Set(Fld(V("c"), "V"), Bin("add", "i32", Fld(V("c"), "V"), I("i32", 1)))),
      Method("C", "ref", "c", "get", [], "i32", Ret(Fld(V("c"), "V"))),
      Main(Let("c", TS("C"), SLit("C", V=I("i32", 5))), ExprS(MCall(V("c"), "C", "inc")), ExprS(MCall(V("c"), "C", "inc")), Print(MCall(V("c"), "C", "get")), Print(Fld(V("c"), "V"))), feats=("method-ref",))

probe("enum-match", Enum("Color", "Red", "Green", "Blue"),
      Fn("code", [("c", TE("Color"))], "i32", Match(V("c"), [(ELit("Color", "Red"), [Ret(I("i32", 1))]), (ELit("Color", "Green"), [Ret(I("i32", 2))])], default=[Ret(I("i32", 3))])),
      Main(Print(Call("code", ELit("Color", "Red"))), Print(Call("code", ELit("Color", "Blue"))), Let("g", TE("Color"), ELit("Color", "Green")), Print(Call("code", V("g"))),
           If(Bin("eq", TE("Color"), V("g"), ELit("Color", "Green")), [Print(I("i32", 1))], [Print(I("i32", 0))])), feats=("enum", "match"))

probe("match-int", Fn("f", [("x", "i32")], "i32", Let("out", "i32", I("i32", 0)),
                      Match(V("x"), [(I("i32", 1), [Set(V("out"), I("i32", 10))]), (I("i32", 2), [Set(V("out"), I("i32", 20))])], default=[Set(V("out"), I("i32", 30))]), Ret(V("out"))),
      Main(Print(Call("f", I("i32", 1))), Print(Call("f", I("i32", 2))), Print(Call("f", I("i32", 7)))), feats=("match",))

probe("match-int64", Fn("id", [("v", "u64")], "u64", Ret(V("v"))),
      Main(Let("x", "u64", Call("id", I("u64", 5))), Match(V("x"), [(I("u64", 0), [Print(I("i32", 0))]), (I("u64", 5), [Print(I("i32", 5))])], default=[Print(I("i32", 9))])), feats=("match64",))

probe("match-no-default-stmt", Fn("f", [("x", "i32")], "i32", Let("out", "i32", I("i32", 5)),
                                  Match(V("x"), [(I("i32", 1), [Set(V("out"), I("i32", 10))])]), Ret(V("out"))),
      Main(Print(Call("f", I("i32", 1))), Print(Call("f", I("i32", 9)))), feats=("match-nodefault",))

probe("fixed-array", Main(Let("a", TA(3, "i32"), ALit(I("i32", 10), I("i32", 20), I("i32", 30))), Print(Idx(V("a"), I("i32", 0))), Print(Idx(V("a"), I("i32", 2))),
                          Print(Idx(V("a"), I("i32", -1))), Set(Idx(V("a"), I("i32", 1)), I("i32", 21)), Print(Idx(V("a"), I("i32", 1))), Print(Len(V("a")))), feats=("fixed-array",))

probe("fixed-array-copy", Main(Let("a", TA(3, "i32"), ALit(I("i32", 7), I("i32", 8), I("i32", 9))), Let("b", TA(3, "i32"), V("a")),
                               Set(Idx(V("b"), I("i32", 0)), I("i32", 70)), Print(Idx(V("a"), I("i32", 0))), Print(Idx(V("b"), I("i32", 0))), Print(Idx(V("b"), I("i32", 2)))), feats=("fixed-array-copy",))

probe("fixed-array-infer-copy", Main(Let("a", TA(3, "i32"), ALit(I("i32", 7), I("i32", 8), I("i32", 9))), LetInfer("b", V("a")),
                                     Set(Idx(V("b"), I("i32", 0)), I("i32", 70)), Print(Idx(V("a"), I("i32", 0))), Print(Idx(V("b"), I("i32", 0)))), feats=("fixed-array-infer-copy",))

probe("fixed-array-const-index", Main(Const("k", "i32", I("i32", 2)), Let("a", TA(4, "i64"), ALit(I("i64", 1), I("i64", 2), I("i64", 3), I("i64", 4))),
                                      Print(Idx(V("a"), V("k"))), Let("j", "i32", I("i32", 1)), Print(Idx(V("a"), V("j")))), feats=("fixed-array-constidx",))

probe("fixed-array-param", Fn("sum3", [("a", TA(3, "i32"))], "i32", Ret(Bin("add", "i32", Idx(V("a"), I("i32", 0)), Bin("add", "i32", Idx(V("a"), I("i32", 1)), Idx(V("a"), I("i32", 2)))))),
      Fn("zap", [("a", TA(3, "i32"))], "void", Set(Idx(V("a"), I("i32", 0)), I("i32", 0))),
      Main(Let("a", TA(3, "i32"), ALit(I("i32", 1), I("i32", 2), I("i32", 3))), ExprS(Call("zap", V("a"))), Print(Call("sum3", V("a")))), feats=("fixed-array-param",))

probe("for-over-array", Main(Let("a", TA(3, "i32"), ALit(I("i32", 5), I("i32", 6), I("i32", 7))), ForArr("i", "v", V("a"), Print(V("i")), Print(V("v")))), feats=("for-array",))

probe("for-over-dyn-array", Main(Let("d", TD("i32"), ALit(I("i32", 5), I("i32", 6))), ForArr("i", "v", V("d"), Print(V("i")), Print(V("v")))), feats=("for-dyn-array",))

probe("dyn-array", Fn("ix", [("k", "i32")], "i32", Ret(V("k"))),
      Main(Let("d", TD("i32"), ALit(I("i32", 1), I("i32", 2), I("i32", 3))), Print(Len(V("d"))), Print(Idx(V("d"), Call("ix", I("i32", 0)))), Print(Idx(V("d"), Call("ix", I("i32", -1)))),
           Append(V("d"), I("i32", 4)), Print(Len(V("d"))), Print(Idx(V("d"), Call("ix", I("i32", 3)))), Set(Idx(V("d"), Call("ix", I("i32", 1))), I("i32", 22)), Print(Idx(V("d"), Call("ix", I("i32", 1))))), feats=("dyn-array",))

probe("dyn-array-alias", Fn("ix", [("k", "i32")], "i32", Ret(V("k"))),
      Main(Let("d", TD("i64"), ALit(I("i64", 1), I("i64", 2))), LetInfer("e", V("d")), Set(Idx(V("e"), Call("ix", I("i32", 0))), I("i64", 9)), Print(Idx(V("d"), Call("ix", I("i32", 0))))), feats=("dyn-alias",))

probe("dyn-array-oob-panic", Fn("ix", [("k", "i32")], "i32", Ret(V("k"))),
      Main(Let("d", TD("i32"), ALit(I("i32", 1), I("i32", 2))), Print(I("i32", 111)), Print(Idx(V("d"), Call("ix", I("i32", 2)))), Print(I("i32", 222))), feats=("dyn-oob",))

probe("dyn-array-neg-oob-panic", Fn("ix", [("k", "i32")], "i32", Ret(V("k"))),
      Main(Let("d", TD("i32"), ALit(I("i32", 1), I("i32", 2))), Print(Idx(V("d"), Call("ix", I("i32", -2)))), Print(Idx(V("d"), Call("ix", I("i32", -3))))), feats=("dyn-oob",))

probe("dyn-array-param", Fn("ix", [("k", "i32")], "i32", Ret(V("k"))), Fn("first", [("d", TD("i32"))], "i32", Ret(Idx(V("d"), Call("ix", I("i32", 0))))),
      Main(Let("d", TD("i32"), ALit(I("i32", 8), I("i32", 9))), Print(Call("first", V("d")))), feats=("dyn-param",))

probe("closure-capture", Main(Let("x", "i32", I("i32", 5)), LetInfer("add", Lam([("y", "i32")], "i32", Ret(Bin("add", "i32", V("x"), V("y"))))),
                              Print(Call("add", I("i32", 7))), Set(V("x"), I("i32", 100)), Print(Call("add", I("i32", 1)))), feats=("closure",))

probe("closure-mutates", Main(Let("x", "i32", I("i32", 10)), LetInfer("f", Lam([], "void", Set(V("x"), I("i32", 42)))), ExprS(Call("f")), Print(V("x"))), feats=("closure-mut",))

# captures of PARAMETERS (a parameter lives in a value until the body writes to it; the capture must see the current value)
probe("closure-captures-assigned-param",
      Fn("f", [("n", "i32")], "i32", Set(V("n"), Bin("add", "i32", V("n"), I("i32", 5))), LetInfer("g", Lam([], "i32", Ret(Bin("mul", "i32", V("n"), I("i32", 2))))), Ret(Call("g"))),
      Fn("h", [("n", "i32"), ("k", "i32")], "i32", If(Bin("gt", "i32", V("k"), I("i32", 0)), [Set(V("n"), I("i32", 40))]), LetInfer("g", Lam([("d", "i32")], "i32", Ret(Bin("add", "i32", V("n"), V("d"))))),
         Set(V("n"), Bin("add", "i32", V("n"), I("i32", 1))), Ret(Call("g", I("i32", 1)))),
      Main(Print(Call("f", I("i32", 1))), Print(Call("h", I("i32", 3), I("i32", 1))), Print(Call("h", I("i32", 3), I("i32", 0)))), feats=("closure-param",))
probe("closure-captures-untouched-param",
      Fn("f", [("n", "i32")], "i32", LetInfer("g", Lam([], "i32", Ret(Bin("mul", "i32", V("n"), I("i32", 2))))), Ret(Call("g"))),
      Main(Print(Call("f", I("i32", 21)))), feats=("closure-param0",))
# implicit (lossless) numeric conversions: no `as`, the value must still be converted
probe("implicit-widening",
      Fn("id8", [("v", "i8")], "i8", Ret(V("v"))), Fn("id16", [("v", "i16")], "i16", Ret(V("v"))), Fn("id32", [("v", "i32")], "i32", Ret(V("v"))), Fn("idu8", [("v", "u8")], "u8", Ret(V("v"))),
      Fn("show", [("v", "i64")], "i64", Ret(Bin("add", "i64", V("v"), I("i64", 0)))), Fn("wide", [], "i64", Ret(Call("id32", I("i32", -5)))),
      Struct("W", ("A", "i64"), ("B", "u32")),
      Main(Let("s", "i32", I("i32", -5)), Let("a", "i64", V("s")), Print(V("a")),
           Let("b", "i32", Call("id8", I("i8", -5))), Print(V("b")), Let("c", "i64", Call("id8", I("i8", -128))), Print(V("c")),
           Print(Call("show", Call("id32", I("i32", -2147483648)))), Print(Call("wide")),
           Let("u", "u32", Call("idu8", I("u8", 250))), Print(V("u")), Let("x", "i64", Call("idu8", I("u8", 200))), Print(V("x")),
           Let("w", TS("W"), SLit("W", A=Call("id16", I("i16", -11)), B=Call("idu8", I("u8", 251)))), Print(Fld(V("w"), "A")), Print(Fld(V("w"), "B")),
           Set(Fld(V("w"), "A"), Call("id16", I("i16", -7))), Print(Fld(V("w"), "A")),
           Let("q", TA(2, "i64"), ALit(Call("id16", I("i16", -3)), Call("id8", I("i8", 4)))), Print(Idx(V("q"), I("i32", 0))),
           Set(Idx(V("q"), I("i32", 1)), Call("id8", I("i8", -9))), Print(Idx(V("q"), I("i32", 1)))), feats=("implicit-widening",))
probe("ref-ref-arith", Fn("add", [("a", TRef("i32")), ("b", TRef("i32"))], "i32", Ret(Bin("add", "i32", V("a"), V("b")))),
      Main(Let("x", "i32", I("i32", 5)), Let("y", "i32", I("i32", 6)), Print(Call("add", Ref(V("x")), Ref(V("y"))))), feats=("ref-ref-arith",))
probe("result-catch", Fn("safediv", [("a", "i32"), ("b", "i32")], TR("str", "i32"), If(Bin("eq", "i32", V("b"), I("i32", 0)), [RetErr(Str("div by zero"))]), Ret(Bin("div", "i32", V("a"), V("b")))),
      Main(Let("m1", "i32", I("i32", -1)), Let("ok", "i32", Catch(Call("safediv", I("i32", 10), I("i32", 2)), V("m1"))), Print(V("ok")),
           Let("bad", "i32", Catch(Call("safediv", I("i32", 10), I("i32", 0)), V("m1"))), Print(V("bad")),
           CatchS(Call("safediv", I("i32", 1), I("i32", 0)), "e", Print(V("e")), Ret()), Print(I("i32", 999))), feats=("result",))

probe("optional", Main(Let("o", TO("i32"), I("i32", 5)), Let("n", TO("i32"), NoneE()), Let("d", "i32", I("i32", 7)),
                       Let("a", "i32", OrElse(V("o"), V("d"))), Print(V("a")), Let("b", "i32", OrElse(V("n"), V("d"))), Print(V("b"))), feats=("optional",))

probe("ref-param-write-through", Fn("bump", [("r", TMut("i32"))], "void", Set(V("r"), Bin("add", "i32", V("r"), I("i32", 1)))),
      Fn("peek", [("r", TRef("i32"))], "i32", Ret(Bin("mul", "i32", V("r"), I("i32", 2)))),
      Main(Let("x", "i32", I("i32", 5)), ExprS(Call("bump", MutRef(V("x")))), ExprS(Call("bump", MutRef(V("x")))), Print(V("x")), Print(Call("peek", Ref(V("x"))))), feats=("ref",))

probe("ref-struct-field", Struct("P", ("X", "i32"), ("Y", "i32")), Fn("setx", [("p", TMut(TS("P")))], "void", Set(Fld(V("p"), "X"), I("i32", 77))),
      Main(Let("p", TS("P"), SLit("P", X=I("i32", 1), Y=I("i32", 2))), ExprS(Call("setx", MutRef(V("p")))), Print(Fld(V("p"), "X")), Print(Fld(V("p"), "Y"))), feats=("ref-struct",))

probe("ref-local", Main(Let("x", "i32", I("i32", 5)), Let("r", TMut("i32"), MutRef(V("x"))), Set(V("r"), I("i32", 9)), Print(V("x"))), feats=("ref-local",))

probe("nested-struct-array", Struct("In", ("A", "i8"), ("B", "i64")), Struct("Out", ("X", "u8"), ("I", TS("In")), ("Arr", TA(2, TS("In")))),
      Main(Let("i0", TS("In"), SLit("In", A=I("i8", 1), B=I("i64", 2))), Let("i1", TS("In"), SLit("In", A=I("i8", 3), B=I("i64", 4))),
           Let("arr", TA(2, TS("In")), ALit(V("i0"), V("i1"))), Let("o", TS("Out"), SLit("Out", X=I("u8", 9), I=V("i0"), Arr=V("arr"))),
           Set(Fld(Fld(V("o"), "I"), "B"), I("i64", 77)), Set(Fld(Idx(Fld(V("o"), "Arr"), I("i32", 1)), "A"), I("i8", 88)),
           Print(Fld(Fld(V("o"), "I"), "B")), Print(Fld(Idx(Fld(V("o"), "Arr"), I("i32", 1)), "A")), Print(Fld(Idx(Fld(V("o"), "Arr"), I("i32", 0)), "B")), Print(Fld(V("i0"), "B")), Print(Fld(V("o"), "X"))),
      feats=("nested",))

probe("min-div-minus-one", Fn("id", [("v", "i32")], "i32", Ret(V("v"))),
      Main(Let("x", "i32", Bin("div", "i32", Call("id", I("i32", -2147483648)), Call("id", I("i32", -1)))), Print(V("x"))), feats=("min-div",))
probe("u64-literal-above-i64-max", Main(Let("w", "u64", I("u64", 18446744073709551615)), Print(V("w"))), feats=("u64-big-literal",))
probe("u64-arith-on-literal-above-i64-max", Main(Let("w", "u64", Bin("sub", "u64", I("u64", 18446744073709551615), I("u64", 1))), Print(V("w")),
                                                 Let("v", "u64", Bin("add", "u64", I("u64", 9223372036854775808), I("u64", 5))), Print(V("v"))), feats=("u64-big-literal-arith",))
probe("catch-as-argument", Fn("safediv", [("a", "i32"), ("b", "i32")], TR("str", "i32"), If(Bin("eq", "i32", V("b"), I("i32", 0)), [RetErr(Str("e"))]), Ret(Bin("div", "i32", V("a"), V("b")))),
      Main(Let("m1", "i32", I("i32", -1)), Print(Catch(Call("safediv", I("i32", 7), I("i32", 2)), V("m1")))), feats=("catch-arg",))
