"""Shared machinery for /verif checks: scratch dirs, builds from /repo's working
tree, Lean builds/audit, evidence, replay files, known findings, violations."""
import atexit, fcntl, hashlib, json, os, re, shutil, subprocess, sys, tempfile, time

VERIF = os.path.dirname(os.path.dirname(os.path.abspath(__file__)))
REPO = os.environ.get("VERIF_REPO", "/repo")
LEAN = os.path.join(VERIF, "lean")
GEN = os.path.join(LEAN, "FerretVerif", "Gen")
EVID = os.path.join(VERIF, "evidence")
REPLAYS = os.path.join(VERIF, "replays")
NPROC = os.cpu_count() or 4

_T0 = time.time()
_scratch = None


def log(*a):
    print(*a, file=sys.stderr, flush=True)


def seed():
    try:
        return int(os.environ.get("VERIF_SEED", "1"))
    except ValueError:
        return 1


def scratch():
    """One scratch dir per process, outside /repo and /verif, removed at exit."""
    global _scratch
    if _scratch is None:
        base = os.environ.get("VERIF_SCRATCH_BASE", "/var/tmp")
        os.makedirs(base, exist_ok=True)
        _scratch = tempfile.mkdtemp(prefix="ferret-verif.", dir=base)
        atexit.register(lambda: shutil.rmtree(_scratch, ignore_errors=True))
    return _scratch


def run(cmd, cwd=None, env=None, timeout=None, input=None, check=False, text=True):
    e = dict(os.environ)
    if env:
        e.update(env)
    p = subprocess.run(cmd, cwd=cwd, env=e, timeout=timeout, input=input,
                       stdout=subprocess.PIPE, stderr=subprocess.PIPE, text=text)
    if check and p.returncode != 0:
        raise BuildError("command failed: %s\n%s\n%s" % (cmd, p.stdout[-4000:], p.stderr[-4000:]))
    return p


class BuildError(Exception):
    pass


# ----------------------------------------------------------------------------
# Go toolchain environment for builds inside /repo (see DESIGN section 8):
# GOTOOLCHAIN=local / GOSUMDB=off must NOT be set: the default go wrapper has to
# switch to the cached go1.25.4 toolchain.
def go_env():
    e = {"GOFLAGS": "-mod=mod", "GOPROXY": "off"}
    for k in ("GOTOOLCHAIN", "GOSUMDB"):
        os.environ.pop(k, None)
    # the cgo package qbe_embeddings #includes the vendored QBE sources from /repo/qbe, which Go's build
    # cache does not track: make their content part of the cache key so edits there are always rebuilt
    h = hashlib.sha1()
    qdir = os.path.join(REPO, "qbe")
    for root, dirs, files in sorted(os.walk(qdir)):
        dirs.sort()
        for f in sorted(files):
            if f.endswith((".c", ".h")):
                h.update(f.encode())
                try:
                    h.update(open(os.path.join(root, f), "rb").read())
                except OSError:
                    pass
    e["CGO_CFLAGS"] = (os.environ.get("CGO_CFLAGS", "-g -O2") + " -DVERIF_QBE_SRC_HASH=" + h.hexdigest()[:16]).strip()
    return e


def build_gohook():
    """Builds /verif/harness/gohook into /repo's package tree through an overlay
    (nothing is written to /repo).  Returns the binary path."""
    sc = scratch()
    out = os.path.join(sc, "gohook")
    if os.path.exists(out):
        return out
    hdir = os.path.join(VERIF, "harness", "gohook")
    mapping = json.load(open(os.path.join(hdir, "overlay.map.json")))
    replace = {}
    for src, dst in mapping.items():
        replace[os.path.join(REPO, dst)] = os.path.join(hdir, src)
    ov = os.path.join(sc, "overlay.json")
    json.dump({"Replace": replace}, open(ov, "w"))
    p = run(["go", "build", "-tags", "verif", "-overlay", ov, "-o", out, "./internal/verifhook"],
            cwd=REPO, env=go_env())
    if p.returncode != 0:
        raise BuildError("gohook build failed:\n" + p.stderr[-6000:])
    return out


def build_ferret():
    """Builds the real ferret CLI and runtime archive from /repo's working tree
    into scratch.  Returns (ferret_path, libs_dir)."""
    sc = scratch()
    ferret = os.path.join(sc, "ferret")
    libs = os.path.join(sc, "libs")
    if os.path.exists(ferret) and os.path.exists(os.path.join(libs, "libferret_runtime.a")):
        return ferret, libs
    p = run(["go", "build", "-o", ferret, "."], cwd=REPO, env=go_env())
    if p.returncode != 0:
        raise BuildError("ferret build failed:\n" + p.stderr[-6000:])
    os.makedirs(libs, exist_ok=True)
    # .fer library sources
    src = os.path.join(REPO, "ferret_libs")
    for root, _, files in os.walk(src):
        for f in files:
            if f.endswith(".fer"):
                rel = os.path.relpath(os.path.join(root, f), src)
                dst = os.path.join(libs, rel)
                os.makedirs(os.path.dirname(dst), exist_ok=True)
                shutil.copyfile(os.path.join(root, f), dst)
    # runtime archive, as tools/main.go does
    objdir = os.path.join(sc, "rtobj")
    os.makedirs(objdir, exist_ok=True)
    cfiles = []
    for d in ("core", "libs"):
        dd = os.path.join(REPO, "runtime", d)
        cfiles += [os.path.join(dd, f) for f in sorted(os.listdir(dd)) if f.endswith(".c")]
    procs = []
    objs = []
    for c in cfiles:
        o = os.path.join(objdir, os.path.basename(c)[:-2] + ".o")
        objs.append(o)
        procs.append((c, subprocess.Popen(
            ["gcc", "-std=c99", "-O2", "-w", "-fno-pie", "-I", os.path.join(REPO, "runtime", "core"),
             "-I", os.path.join(REPO, "runtime", "libs"), "-c", c, "-o", o],
            stdout=subprocess.PIPE, stderr=subprocess.PIPE, text=True)))
    for c, pr in procs:
        so, se = pr.communicate()
        if pr.returncode != 0:
            raise BuildError("runtime compile failed for %s:\n%s" % (c, se[-3000:]))
    run(["ar", "rcs", os.path.join(libs, "libferret_runtime.a")] + objs, check=True)
    return ferret, libs


def ferret_env(libs):
    # the compiler is run many times in parallel: two scheduler threads per process keep the Go runtime's per-process overhead
    # (idle GC workers, spinning Ms) from dominating; checks about scheduling (C14, C15) set GOMAXPROCS themselves
    return {"FERRET_LIBS_PATH": libs, "NO_COLOR": "1", "GOMAXPROCS": os.environ.get("VERIF_FERRET_PROCS", "2")}


ANSI = re.compile(r"\x1b\[[0-9;]*[A-Za-z]")


def strip_ansi(s):
    return ANSI.sub("", s)


# ----------------------------------------------------------------------------
# Lean

class _Lock:
    def __enter__(self):
        os.makedirs(os.path.join(LEAN, ".lake"), exist_ok=True)
        self.f = open(os.path.join(LEAN, ".lake", "verif.lock"), "w")
        fcntl.flock(self.f, fcntl.LOCK_EX)

    def __exit__(self, *a):
        fcntl.flock(self.f, fcntl.LOCK_UN)
        self.f.close()


def write_gen(name, text):
    """Writes lean/FerretVerif/Gen/<name>.lean if content changed."""
    os.makedirs(GEN, exist_ok=True)
    path = os.path.join(GEN, name + ".lean")
    old = None
    if os.path.exists(path):
        old = open(path).read()
    if old != text:
        with open(path, "w") as f:
            f.write(text)
    return path


def lake_build(targets, timeout=3000):
    """lake build <targets>; returns (ok, output)."""
    with _Lock():
        p = run(["lake", "build"] + list(targets), cwd=LEAN, timeout=timeout)
    return p.returncode == 0, p.stdout + p.stderr


def fvdriver():
    exe = os.path.join(LEAN, ".lake", "build", "bin", "fvdriver")
    ok, out = lake_build(["fvdriver"])
    if not ok or not os.path.exists(exe):
        raise BuildError("fvdriver build failed:\n" + out[-6000:])
    return exe


def run_driver(args, input_text, timeout=3000):
    exe = fvdriver()
    p = run([exe] + list(args), input=input_text, timeout=timeout)
    if p.returncode != 0:
        raise BuildError("fvdriver %s failed: %s" % (args, p.stderr[-3000:]))
    return p.stdout


FORBIDDEN = re.compile(r"\bsorry\b|\badmit\b|^\s*axiom\s|native_decide|bv_decide|implemented_by|\bunsafe\s|maxHeartbeats\s+0|@\[extern")
ALLOWED_AXIOMS = {"propext", "Classical.choice", "Quot.sound"}


def _strip_lean_comments(src):
    out = []
    i, n, depth = 0, len(src), 0
    while i < n:
        if src.startswith("/-", i):
            depth += 1
            i += 2
        elif depth and src.startswith("-/", i):
            depth -= 1
            i += 2
        elif depth:
            if src[i] == "\n":
                out.append("\n")
            i += 1
        elif src.startswith("--", i):
            while i < n and src[i] != "\n":
                i += 1
        else:
            out.append(src[i])
            i += 1
    return "".join(out)


def _imports_closure(prop_module):
    """files (relative to LEAN) transitively imported by FerretVerif.Props.<prop_module> inside this package"""
    todo = ["FerretVerif.Props." + prop_module]
    seen = []
    while todo:
        m = todo.pop()
        if m in seen or not m.startswith("FerretVerif"):
            continue
        path = os.path.join(LEAN, m.replace(".", "/") + ".lean")
        if not os.path.exists(path):
            continue
        seen.append(m)
        for line in open(path):
            mm = re.match(r"\s*import\s+(\S+)", line)
            if mm:
                todo.append(mm.group(1))
    return [m.replace(".", "/") + ".lean" for m in seen]


def grep_forbidden(prop_module=None):
    """Returns list of (file, line, text) of forbidden constructs outside comments, in the sources the
    property's theorems depend on (transitive imports of Props/<prop_module>.lean) plus the driver."""
    hits = []
    if prop_module is None:
        import inspect
        for fr in inspect.stack():
            pid = fr.frame.f_globals.get("PID")
            if pid:
                prop_module = pid
                break
    files = [os.path.join(LEAN, f) for f in _imports_closure(prop_module)] if prop_module else []
    drv = os.path.join(LEAN, "FerretVerif", "Drv")
    files += [os.path.join(drv, f) for f in os.listdir(drv) if f.endswith(".lean")] if os.path.isdir(drv) else []
    files += [os.path.join(LEAN, "Driver.lean")]
    for f in files:
        if not os.path.exists(f):
            continue
        src = _strip_lean_comments(open(f).read())
        for ln, line in enumerate(src.split("\n"), 1):
            # string literals may legitimately mention the words (driver messages): drop them
            bare = re.sub(r'"(\\.|[^"\\])*"', '""', line)
            if FORBIDDEN.search(bare):
                hits.append((os.path.relpath(f, LEAN), ln, line.strip()))
    return hits


def audit_theorems(prop_module, names):
    """#print axioms for each theorem name in FerretVerif.Props.<prop_module>.
    Returns dict name -> list of axioms (None if the theorem does not exist)."""
    sc = scratch()
    path = os.path.join(sc, "Audit_%s.lean" % prop_module)
    with open(path, "w") as f:
        f.write("import FerretVerif.Props.%s\n" % prop_module)
        for n in names:
            f.write("#print axioms %s\n" % n)
    with _Lock():
        p = run(["lake", "env", "lean", path], cwd=LEAN, timeout=1800)
    out = p.stdout + p.stderr
    res = {}
    for n in names:
        m = re.search(r"'%s' depends on axioms: \[([^\]]*)\]" % re.escape(n), out, re.S)
        if m:
            res[n] = [a.strip() for a in m.group(1).replace("\n", " ").split(",") if a.strip()]
        elif re.search(r"'%s' does not depend on any axioms" % re.escape(n), out):
            res[n] = []
        else:
            res[n] = None
    return res, out


def theorem_names(prop_module):
    """Names of theorems declared in Props/<prop_module>.lean (namespace-qualified)."""
    path = os.path.join(LEAN, "FerretVerif", "Props", prop_module + ".lean")
    src = _strip_lean_comments(open(path).read())
    ns = []
    names = []
    for line in src.split("\n"):
        m = re.match(r"\s*namespace\s+(\S+)", line)
        if m:
            ns.append(m.group(1))
            continue
        m = re.match(r"\s*end\s+(\S+)", line)
        if m and ns and ns[-1] == m.group(1):
            ns.pop()
            continue
        m = re.match(r"\s*(?:private\s+|protected\s+)?theorem\s+(\S+)", line)
        if m:
            names.append(".".join(ns + [m.group(1)]))
    return names


# ----------------------------------------------------------------------------
# Evidence, replay, known findings

def write_evidence(pid, level, coverage, assumptions=None, violations=0, tier=None):
    os.makedirs(EVID, exist_ok=True)
    ev = {
        "property_id": pid,
        "tier": tier or os.environ.get("VERIF_TIER", "quick"),
        "seed": seed(),
        "level": level,
        "coverage": coverage,
        "assumptions": assumptions or [],
        "wall_s": round(time.time() - _T0, 2),
        "violations": violations,
    }
    with open(os.path.join(EVID, pid + ".json"), "w") as f:
        json.dump(ev, f, indent=1, sort_keys=True)
        f.write("\n")
    return ev


def write_replay(pid, obj):
    os.makedirs(REPLAYS, exist_ok=True)
    blob = json.dumps(obj, sort_keys=True)
    h = hashlib.sha1(blob.encode()).hexdigest()[:12]
    path = os.path.join(REPLAYS, "%s-%s.json" % (pid, h))
    obj = dict(obj)
    obj["property"] = pid
    with open(path, "w") as f:
        json.dump(obj, f, indent=1, sort_keys=True)
        f.write("\n")
    return path


def load_known():
    path = os.path.join(VERIF, "known_findings.json")
    if not os.path.exists(path):
        return []
    return json.load(open(path))


class Report:
    """Collects violations/known findings for one property run and prints the
    protocol lines.  A failing case is attributed to a known finding only via
    an explicit key (the finding's witness key)."""

    def __init__(self, pid):
        self.pid = pid
        self.known = {k["key"]: k for k in load_known()
                      if k.get("property") == pid and k.get("status") == "known"}
        self.violations = []
        self.known_hit = []
        self.notes = []

    def fail(self, key, what, replay_obj, no_input=False):
        """key: canonical witness key of the failing case."""
        if key in self.known:
            if key not in [k for k, _ in self.known_hit]:
                self.known_hit.append((key, self.known[key].get("what", what)))
            return False
        path = write_replay(self.pid, dict(replay_obj, what=what, key=key))
        self.violations.append((key, what, path, no_input))
        return True

    def finish(self):
        for key, what in self.known_hit:
            print("KNOWN-FINDING: property=%s %s [%s]" % (self.pid, what, key))
        for key, what, path, no_input in self.violations[:20]:
            log("violation: %s: %s" % (key, what))
            print("VIOLATION property=%s replay=%s%s" % (self.pid, path,
                  " no-failing-input-found" if no_input else ""))
        sys.stdout.flush()
        return 1 if self.violations else 0


class SplitMix64:
    """Same generator as FerretVerif.Core.Rng (Lean)."""
    M = (1 << 64) - 1

    def __init__(self, s):
        self.s = s & self.M

    def next(self):
        self.s = (self.s + 0x9E3779B97F4A7C15) & self.M
        z = self.s
        z = ((z ^ (z >> 30)) * 0xBF58476D1CE4E5B9) & self.M
        z = ((z ^ (z >> 27)) * 0x94D049BB133111EB) & self.M
        return z ^ (z >> 31)

    def below(self, n):
        return self.next() % n

    def choice(self, xs):
        return xs[self.below(len(xs))]


# ----------------------------------------------------------------------------
# schedule gates (C14): the real CLI built with pseudo-random, seed-driven delays at three points of parse.go

GATE_ANCHORS = [
    ("func (p *Pipeline) parseModule(importPath string, requestedLocation *source.Location) {\n", "after", '\tverifGate("parse", importPath)\n'),
    ("\ttokenizer := lexer.New(filePath, content, p.ctx.Diagnostics)\n", "before", '\tverifGate("lex", importPath)\n'),
    ("\tastModule := parser.Parse(tokens, filePath, p.ctx.Diagnostics)\n", "before", '\tverifGate("parse-body", importPath)\n'),
    ("\tvar imports []importInfo\n\tif astModule != nil {\n", "before", '\tverifGate("deps", importPath)\n'),
]


def build_ferret_gated():
    """returns (ferret path, libs, gated?) — the CLI built from /repo's working tree with the gates of harness/gate_pipeline.go
    spliced into a COPY of the current parse.go through -overlay; falls back to the plain binary when an anchor is missing."""
    ferret, libs = build_ferret()
    sc = scratch()
    out = os.path.join(sc, "ferret_gated")
    if os.path.exists(out):
        return out, libs, True
    src = os.path.join(REPO, "internal", "pipeline", "parse.go")
    try:
        text = open(src).read()
    except OSError:
        return ferret, libs, False
    for anchor, where, ins in GATE_ANCHORS:
        if text.count(anchor) != 1:
            log("gate anchor missing in parse.go: %r — falling back to the ungated compiler" % anchor.strip())
            return ferret, libs, False
        text = text.replace(anchor, anchor + ins if where == "after" else ins + anchor)
    gated = os.path.join(sc, "parse_gated.go")
    open(gated, "w").write(text)
    ov = os.path.join(sc, "overlay_gate.json")
    json.dump({"Replace": {src: gated, os.path.join(REPO, "internal", "pipeline", "zz_verif_gate.go"): os.path.join(VERIF, "harness", "gate_pipeline.go")}}, open(ov, "w"))
    p = run(["go", "build", "-tags", "verif", "-overlay", ov, "-o", out, "."], cwd=REPO, env=go_env())
    if p.returncode != 0:
        log("gated build failed, falling back: " + p.stderr[-800:])
        return ferret, libs, False
    return out, libs, True
