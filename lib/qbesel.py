"""Translator for the QBE instruction-selection table (C01/C02/C09): one tiny function per (operator, integer type) and per
(source type, target type) cast is compiled with the REAL compiler from the current tree, the emitted IL of each function is parsed
and written to lean/FerretVerif/Gen/QbeSel.lean.  Props/C01 proves every regenerated row correct against the integer semantics."""
import os, re, hashlib
from common import *
from ferretrun import run_project

SMALL = ["i8", "i16", "i32", "i64", "u8", "u16", "u32", "u64"]
ARITH = [("add", "+"), ("sub", "-"), ("mul", "*"), ("div", "/"), ("rem", "%")]
CMP = [("lt", "<"), ("le", "<="), ("gt", ">"), ("ge", ">="), ("eq", "=="), ("ne", "!=")]


def program():
    fns, names = [], []
    for t in SMALL:
        for n, sym in ARITH:
            names.append(("bin", n, t, t)); fns.append("fn bin_%s_%s(a: %s, b: %s) -> %s { return a %s b; }" % (n, t, t, t, t, sym))
        for n, sym in CMP:
            names.append(("cmp", n, t, t)); fns.append("fn cmp_%s_%s(a: %s, b: %s) -> bool { return a %s b; }" % (n, t, t, t, sym))
        if t[0] == "i":
            names.append(("neg", "neg", t, t)); fns.append("fn neg_neg_%s(a: %s) -> %s { return -a; }" % (t, t, t))
        for t2 in SMALL:
            if t2 != t:
                names.append(("cast", "cast", t, t2)); fns.append("fn cast_%s_%s(a: %s) -> %s { return a as %s; }" % (t, t2, t, t2, t2))
    for t in SMALL:
        # a value that goes through memory: stored into a struct field, the struct copied, the field loaded
        names.append(("mem", "mem", t, t))
        fns.append("type M_%s struct { .P: i64, .F: %s };\nfn mem_mem_%s(a: %s) -> %s { let s: M_%s = { .P = 1, .F = a } as M_%s; return s.F; }" % (t, t, t, t, t, t, t))
    return 'import "std/io";\n' + "\n".join(fns) + "\nfn main() { }\n", names


INS = re.compile(r"^\s*(%\w+) =(\w) (\w+) ([^,\n]+?)(?:, ([^,\n]+))?$")


def parse_functions(ssa):
    """name -> (param names, [(dst, cls, op, a1, a2)], ret) for straight-line functions"""
    out = {}
    for m in re.finditer(r"function (\w)? ?\$(\w+)\(([^)]*)\) \{\n(.*?)\n\}", ssa, re.S):
        cls, name, params, body = m.groups()
        ps = [p.strip().split()[-1] for p in params.split(",") if p.strip()]
        ins, ret, ok = [], None, True
        for line in body.split("\n"):
            line = line.strip()
            if not line or line.startswith("@"): continue
            if line.startswith("ret"):
                ret = line.split()[1] if len(line.split()) > 1 else None
                continue
            mm = INS.match(line)
            if not mm: ok = False; break
            ins.append(mm.groups())
        out[name] = (ps, ins, ret) if ok else None
    return out


def lean_arg(a, ps, dsts):
    a = a.strip()
    if a in ps: return ".param %d" % ps.index(a)
    if a in dsts: return ".tmp %d" % dsts.index(a)
    if re.fullmatch(r"-?\d+", a): return ".lit %d" % int(a) if int(a) >= 0 else None
    return None


def ty_lean(t):
    return "⟨%s, %s⟩" % (t[1:], "true" if t[0] == "i" else "false")


def type_range(t):
    b = int(t[1:])
    return (-(1 << (b - 1)), (1 << (b - 1)) - 1) if t[0] == "i" else (0, (1 << b) - 1)


def operand_values(t, rng, extra=3):
    lo, hi = type_range(t)
    cand = [lo, lo + 1, -2, -1, 0, 1, 2, 3, 7, 100, 127, 128, 255, 256, 32767, 32768, 65535, 65536, 2147483647, 2147483648, 4294967295, 4294967296, hi - 1, hi,
            -128, -129, -32768, -32769, -2147483648, -2147483649]
    vals = sorted(set(v for v in cand if lo <= v <= hi))
    for _ in range(extra):
        vals.append(lo + rng.next() % (hi - lo + 1))
    return vals


def operand_tuples(kind, t, rng, tier):
    vals = operand_values(t, rng)
    if kind in ("neg", "cast", "mem"):
        return [(v,) for v in vals]
    lo, hi = type_range(t)
    pairs = [(lo, -1), (hi, 1), (hi, hi), (lo, lo), (lo, 1), (0, lo), (7, 2), (-7, 2), (7, -2), (-7, -2), (100, 27), (hi, 2), (lo, 2), (1, hi), (hi, lo), (lo, hi), (0, 0), (3, 3),
             (hi - 1, hi), (lo + 1, lo), (-1, 1), (1, -1), (-1, -1), (200, 100), (100, 200), (hi, -1), (lo + 1, -1), (hi // 2 + 1, 2), (hi // 2 + 1, hi // 2 + 1)]
    pairs = [(a, b) for a, b in pairs if lo <= a <= hi and lo <= b <= hi]
    n = 6 if tier == "quick" else 60
    for _ in range(n):
        pairs.append((vals[rng.next() % len(vals)], vals[rng.next() % len(vals)]))
        pairs.append((lo + rng.next() % (hi - lo + 1), lo + rng.next() % (hi - lo + 1)))
    seen, out = set(), []
    for pr in pairs:
        if pr not in seen:
            seen.add(pr); out.append(pr)
    return out


def fname_of(kind, op, t1, t2):
    return "%s_%s_%s" % (kind, op, t1) if kind != "cast" else "cast_%s_%s" % (t1, t2)


def lit(v):
    return "(%d)" % v if v < 0 else str(v)


def observation_chunks(tier, seed_value):
    """[(calls, program text)]: programs that call every probe function on edge and random operands and print the result
    (directly and, for results narrower than 64 bits, widened)."""
    text, names = program()
    rng = SplitMix64(seed_value * 7919 + 17)
    chunks = []
    cur_calls, cur_groups, cur_names = [], [], []
    def flush():
        if cur_names:
            main = "fn main() {\n" + "\n".join("    run_%s();" % n for n in cur_names) + "\n}\n"
            chunks.append((list(cur_calls), text.replace("\nfn main() { }\n", "\n" + "\n".join(cur_groups) + "\n" + main)))
            del cur_calls[:], cur_groups[:], cur_names[:]
    for kind, op, t1, t2 in names:
        tuples = operand_tuples(kind, t1, rng, tier)
        body = []
        for args in tuples:
            if kind == "bin" and op in ("div", "rem") and (args[1] == 0 or (t1[0] == "i" and args[1] == -1 and args[0] == type_range(t1)[0])):
                continue       # no value in the semantics (division by zero) / the known trapping quotient
            cur_calls.append((kind, op, t1, t2, args))
            body.append("    io::Println(%s(%s));" % (fname_of(kind, op, t1, t2), ", ".join(lit(a) for a in args)))
            if kind != "cmp" and t2[1:] != "64":
                # the same result widened: shows a temporary that is not in canonical (sign- or zero-extended) form
                cur_calls.append((kind, op, t1, t2, args))
                body.append("    io::Println(%s(%s) as %s64);" % (fname_of(kind, op, t1, t2), ", ".join(lit(a) for a in args), t2[0]))
        cur_groups.append("fn run_%s() {\n%s\n}" % (fname_of(kind, op, t1, t2), "\n".join(body)))
        cur_names.append(fname_of(kind, op, t1, t2))
        if len(cur_calls) >= 250:
            flush()
    flush()
    return chunks


def run_chunks(chunks, target):
    from ferretrun import run_many
    obs, problems = [], []
    results = run_many([dict(files={"main.fer": t}, mode="run", target=target, timeout=300) for _, t in chunks])
    for (calls, _), r in zip(chunks, results):
        lines = (r.stdout.split("\n")[:-1] if r.stdout else []) if r.compile_rc == 0 else []
        if r.compile_rc != 0 or r.run_rc != 0 or len(lines) != len(calls):
            problems.append("an instruction-selection observation program fails on %s: compile status %s, exit status %s after %d of %d lines (%s)" %
                            (target, r.compile_rc, r.run_rc, len(lines), len(calls), strip_ansi(r.compile_out or "")[-200:] + (r.stderr or "")[-200:]))
        obs += [c + (lines[i] if i < len(lines) else None,) for i, c in enumerate(calls)]
    return obs, problems


MEM_ROWS = []


def gen_qbesel(tier="quick", seed_value=1, run=True):
    """Compiles the selection probe program with the compiler of the current tree (-keep-gen), writes Gen/QbeSel.lean from the emitted IL and,
    when `run`, executes observation programs: every function is called on edge and random operands and its printed result recorded.
    returns (problems, rows, observations) — observations: list of (kind, op, t1, t2, args, printed text)."""
    import subprocess, shutil
    text, names = program()
    ferret, libs = build_ferret()
    base = os.path.join(scratch(), "proj", "qbesel%d" % os.getpid())
    d = os.path.join(base, "app")
    shutil.rmtree(base, ignore_errors=True)
    os.makedirs(d)
    with open(os.path.join(d, "main.fer"), "w") as f:
        f.write(text)
    env = dict(os.environ); env.update(ferret_env(libs))
    outp = os.path.join(d, "out.bin")
    p = subprocess.run([ferret, "-keep-gen", "-o", outp, "main.fer"], cwd=d, env=env, stdout=subprocess.PIPE, stderr=subprocess.PIPE, text=True, timeout=600)
    problems, rows, obs = [], [], []
    ssa_path = os.path.join(d, "gen", "app_main.ssa")
    if p.returncode != 0 or not os.path.exists(ssa_path):
        problems.append("the instruction-selection probe program does not compile: " + strip_ansi(p.stdout + p.stderr)[-400:])
        fns = {}
    else:
        fns = parse_functions(open(ssa_path).read())
    SSA_TEXT = [open(ssa_path).read() if os.path.exists(ssa_path) else ""]
    shutil.rmtree(base, ignore_errors=True)
    if run and fns:
        o, pr = run_chunks(observation_chunks(tier, seed_value), "native")
        obs += o; problems += pr
    mem_rows = []
    for kind, op, t1, t2 in names:
        if kind != "mem": continue
        m = re.search(r"function (\w) \$mem_mem_%s\((\w) (%%\w+)\) \{\n(.*?)\n\}" % t1, SSA_TEXT[0], re.S)
        if not m:
            problems.append("function mem_mem_%s not found in the generated IL" % t1); continue
        param, body = m.group(3), m.group(4)
        st = re.findall(r"^\s*(store\w) %s, " % re.escape(param), body, re.M)
        ret = re.search(r"^\s*ret (%\w+)", body, re.M)
        ld = re.search(r"^\s*%s =(\w) (load\w+) " % re.escape(ret.group(1)), body, re.M) if ret else None
        if len(st) != 1 or not ld:
            problems.append("function mem_mem_%s: cannot identify the store of the parameter / the load that is returned: %s" % (t1, body[-300:])); continue
        mem_rows.append((t1, st[0], ld.group(2), ld.group(1)))
    for kind, op, t1, t2 in names:
        if kind == "mem": continue
        fname = fname_of(kind, op, t1, t2)
        f = fns.get(fname)
        if not f:
            problems.append("function %s not found / not straight-line in the generated IL" % fname); continue
        ps, ins, ret = f
        dsts = [i[0] for i in ins]
        seq, raw = [], []
        bad = False
        for dst, cls, o, a1, a2 in ins:
            l1 = lean_arg(a1, ps, dsts[:len(seq)])
            l2 = lean_arg(a2, ps, dsts[:len(seq)]) if a2 is not None else ".lit 0"
            if l1 is None or l2 is None or cls not in "wl": bad = True; break
            seq.append("⟨.%s, \"%s\", %s, %s⟩" % (cls, o, l1, l2))
            raw.append("%s %s %s %s" % (cls, o, l1.replace(".param ", "p").replace(".tmp ", "t").replace(".lit ", "l"), l2.replace(".param ", "p").replace(".tmp ", "t").replace(".lit ", "l")))
        if bad or ret != (dsts[-1] if dsts else None):
            problems.append("function %s has an instruction the table format cannot express: %s" % (fname, ins)); continue
        rows.append((kind, op, t1, t2, seq, raw))
    lines = ["-- REGENERATED by /verif/lib/qbesel.py from IL emitted by the current /repo compiler; do not edit.", "import FerretVerif.Model.QbeSem", "namespace FerretVerif.Gen", "open FerretVerif.QbeSem", "",
             "def qbeSel : List Row := ["]
    lines.append(",\n".join("  ⟨.%s, \"%s\", %s, %s, [%s]⟩" % (k, op, ty_lean(t1), ty_lean(t2), ", ".join(seq)) for k, op, t1, t2, seq, raw in rows))
    lines += ["]", "", "def qbeMem : List MemRow := ["]
    lines.append(",\n".join("  ⟨%s, \"%s\", \"%s\", .%s⟩" % (ty_lean(t), st, ld, c) for t, st, ld, c in mem_rows))
    lines += ["]", "end FerretVerif.Gen", ""]
    write_gen("QbeSel", "\n".join(lines))
    MEM_ROWS[:] = mem_rows
    return problems, rows, obs


def check_selection(rep, pid, tier, stats):
    """Tie of Gen.qbeSel / Model.QbeSem to the code: (1) the table is regenerated; (2) every observation of the real executable is compared with
    the model (`fvdriver qbe-row`: rowSpec = the value the semantics prescribe, exec = the value the emitted sequence yields in the QBE semantics);
    (3) for a row that is no longer of a proved shape, the operands on which sequence and specification differ are searched."""
    problems, rows, obs = gen_qbesel(tier, seed())
    for pr in problems:
        rep.fail("tie:qbesel:" + hashlib.sha1(pr.encode()).hexdigest()[:10], "instruction-selection table cannot be regenerated: " + pr, {"kind": "broken-obligation", "detail": pr}, no_input=True)
    bykey = {(k, op, t1, t2): raw for k, op, t1, t2, seq, raw in rows}
    qs, meta = [], []
    mem_compared = 0
    for kind, op, t1, t2, args, printed in obs:
        if kind == "mem":
            mem_compared += 1
            if printed != str(args[0]) and not any(v[0] == "sel:mem:%s" % t1 for v in rep.violations):
                rep.fail("sel:mem:%s" % t1, "a %s value %d stored into a struct field and loaded back prints %r (store / load instructions emitted: %s)" %
                         (t1, args[0], printed, [r for r in MEM_ROWS if r[0] == t1]),
                         {"kind": "selection", "function": "mem_mem_" + t1, "operands": list(args), "printed": printed, "expected": str(args[0])})
            continue
        raw = bykey.get((kind, op, t1, t2))
        if raw is None: continue
        qs.append("%s %s %s %d %s %d %s | %s" % (kind, op, t1[1:], t1[0] == "i", t2[1:], t2[0] == "i", ",".join(str(a) for a in args), " ; ".join(raw)))
        meta.append((kind, op, t1, t2, args, printed))
    out = run_driver(["qbe-row"], "\n".join(qs) + "\n").split("\n")[:-1] if qs else []
    other_rows, model_cex, real_bad, compared = {}, {}, 0, 0
    for (kind, op, t1, t2, args, printed), line in zip(meta, out):
        f = line.split()
        if len(f) != 3:
            rep.fail("tie:qbesel:driver", "fvdriver qbe-row rejects a regenerated row: %s" % line, {"kind": "broken-obligation"}, no_input=True); break
        shape, spec, ex = f
        key = (kind, op, t1, t2)
        if shape != "ok":
            other_rows.setdefault(key, 0)
            if spec != "none" and ex != "none" and spec != ex and key not in model_cex:
                model_cex[key] = (args, spec, ex)
        if spec == "none": continue
        want = spec if kind != "cmp" else ("true" if spec == "1" else "false")
        compared += 1
        if printed != want:
            real_bad += 1
            if any(v[0] == "sel:%s:%s:%s:%s" % key for v in rep.violations):
                continue
            rep.fail("sel:%s:%s:%s:%s" % key, "compiled %s on %s operands %s prints %r, the semantics prescribe %s (emitted sequence: %s; its value in the QBE model: %s)" %
                     (op if kind != "cast" else "cast to " + t2, t1, list(args), printed, want, bykey[key], ex),
                     {"kind": "selection", "function": fname_of(*key), "operands": list(args), "printed": printed, "expected": want, "sequence": bykey[key],
                      "source": "fn f(%s) { return %s; }" % (t1, op)})
    for key in other_rows:
        if any(v[0] == "sel:%s:%s:%s:%s" % key for v in rep.violations):
            continue
        if key in model_cex:
            args, spec, ex = model_cex[key]
            rep.fail("selmodel:%s:%s:%s:%s" % key, "the sequence now emitted for %s %s->%s (%s) is not of a proved shape and, in the QBE model, yields %s on operands %s where the semantics prescribe %s; "
                     "the executable did not show the difference" % (key[1], key[2], key[3], bykey[key], ex, list(args), spec),
                     {"kind": "broken-obligation", "theorem": "FerretVerif.C01.sel_table_known_shapes", "row": list(key), "sequence": bykey[key], "operands": list(args)}, no_input=True)
        else:
            rep.fail("selshape:%s:%s:%s:%s" % key, "the sequence now emitted for %s %s->%s (%s) is not of a shape proved correct (theorem sel_table_known_shapes no longer checks)" % (key[1], key[2], key[3], bykey[key]),
                     {"kind": "broken-obligation", "theorem": "FerretVerif.C01.sel_table_known_shapes", "row": list(key), "sequence": bykey[key]}, no_input=True)
    stats["selection_memory"] = {"rows": len(MEM_ROWS), "observations_compared": mem_compared, "ops": {r[0]: [r[1], r[2]] for r in MEM_ROWS}}
    stats["selection"] = {"rows": len(rows), "rows_of_proved_shape": len(rows) - len(other_rows), "observations_compared": compared, "mismatches": real_bad,
                          "per_kind": {k: sum(1 for m in meta if m[0] == k) for k in ("bin", "cmp", "neg", "cast")}}
    return stats["selection"]
