//go:build verif

package pipeline

import (
	"hash/fnv"
	"os"
	"time"
)

// verifGate delays the calling parser goroutine by a pseudo-random amount derived from FERRET_VERIF_SCHED, the gate
// name and the module: different values of the variable give different (reproducible) interleavings of the
// concurrently parsed modules.  Without the variable it does nothing.
func verifGate(point, module string) {
	seed := os.Getenv("FERRET_VERIF_SCHED")
	if seed == "" {
		return
	}
	h := fnv.New32a()
	h.Write([]byte(seed + "|" + point + "|" + module))
	time.Sleep(time.Duration(h.Sum32()%6) * 1500 * time.Microsecond)
}
