//go:build verif

package main

import (
	"fmt"
	"strings"

	"compiler/internal/context_v2"
	"compiler/internal/phase"
)

func init() {
	// depgraph: `<mods comma-separated> <a>b ...`  (edge attempts in order; modules are names like m003)
	//   -> `<verdicts: 1 accepted / 0 cycle> | <adjacency a:b,c;...> | <topological order>`
	subcommands["depgraph"] = func() {
		eachLine(func(f []string) string {
			if len(f) < 1 {
				return "bad-op"
			}
			ctx := context_v2.New(&context_v2.Config{Extension: ".fer"}, false)
			var mods []string
			if f[0] != "-" {
				mods = strings.Split(f[0], ",")
			}
			own := map[string]bool{}
			for i, m := range mods {
				own[m] = true
				// name conventions give the graph the shape of a real project: `b…` modules are builtin (standard library),
				// an `e…` module is the entry module; everything else is a local module
				typ := context_v2.ModuleLocal
				if strings.HasPrefix(m, "b") {
					typ = context_v2.ModuleBuiltin
				}
				if strings.HasPrefix(m, "e") || (i == 0 && ctx.EntryModule == "" && strings.HasPrefix(m, "E")) {
					ctx.EntryModule = m
				}
				ctx.AddModule(m, &context_v2.Module{FilePath: m + ".fer", Phase: phase.PhaseParsed, Type: typ})
			}
			var verdicts strings.Builder
			var order []string // importers in first-insertion order (for the adjacency dump)
			seenImp := map[string]bool{}
			for _, e := range f[1:] {
				p := strings.Split(e, ">")
				if len(p) != 2 {
					return "bad-op"
				}
				own[p[0]] = true
				own[p[1]] = true
				if err := ctx.AddDependency(p[0], p[1]); err != nil {
					if !strings.Contains(err.Error(), "circular import detected") {
						return "unexpected-error"
					}
					verdicts.WriteString("0")
				} else {
					verdicts.WriteString("1")
					if !seenImp[p[0]] {
						seenImp[p[0]] = true
						order = append(order, p[0])
					}
				}
			}
			var adj []string
			for _, a := range order {
				if deps, ok := ctx.DepGraph[a]; ok && len(deps) > 0 {
					adj = append(adj, a+":"+strings.Join(deps, ","))
				}
			}
			ctx.ComputeTopologicalOrder()
			var topo []string
			for _, m := range ctx.GetModuleNames() {
				if own[m] {
					topo = append(topo, m)
				}
			}
			v := verdicts.String()
			if v == "" {
				v = "-"
			}
			return fmt.Sprintf("%s | %s | %s", v, strings.Join(adj, ";"), strings.Join(topo, ","))
		})
	}
}
