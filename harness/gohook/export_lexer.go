//go:build verif

package lexer

import "compiler/internal/tokens"

// VerifPatterns returns, in matching order, the regex source of every pattern and, for patterns handled by
// defaultHandler, the token the handler pushes (obtained by running the handler on a scratch lexer).
func VerifPatterns() (srcs []string, toks []string) {
	lex := New("", "", nil)
	for i, p := range lex.patterns {
		srcs = append(srcs, p.regex.String())
		if i < 7 {
			toks = append(toks, "")
			continue
		}
		scratch := New("", "                ", nil)
		p.handler(scratch, p.regex)
		if len(scratch.Tokens) == 1 {
			toks = append(toks, string(scratch.Tokens[0].Kind))
		} else {
			toks = append(toks, "")
		}
	}
	return
}

var _ = tokens.EOF_TOKEN
