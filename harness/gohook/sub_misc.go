//go:build verif

package main

import (
	"encoding/hex"
	"fmt"

	"compiler/internal/utils"
)

func init() {
	// is-exported: `<hex name or ->` -> true|false
	subcommands["is-exported"] = func() {
		eachLine(func(f []string) string {
			if len(f) != 1 {
				return "bad-op"
			}
			name := ""
			if f[0] != "-" {
				b, err := hex.DecodeString(f[0])
				if err != nil {
					return "bad-op"
				}
				name = string(b)
			}
			return fmt.Sprint(utils.IsExported(name))
		})
	}
}
