//go:build verif

// gohook: line-protocol driver over the real Ferret functions (built into /repo's
// package tree with -overlay; see /verif/DESIGN.md section 8).
package main

import (
	"bufio"
	"fmt"
	"os"
	"strings"

	"compiler/internal/semantics/typechecker"
	"compiler/internal/types"
)

var numericNames = []types.TYPE_NAME{
	types.TYPE_I8, types.TYPE_I16, types.TYPE_I32, types.TYPE_I64, types.TYPE_I128, types.TYPE_I256,
	types.TYPE_U8, types.TYPE_U16, types.TYPE_U32, types.TYPE_U64, types.TYPE_U128, types.TYPE_U256,
	types.TYPE_F32, types.TYPE_F64, types.TYPE_F128, types.TYPE_F256, types.TYPE_BYTE,
}

var out = bufio.NewWriter(os.Stdout)

func protect(line string, f func() string) (res string) {
	defer func() {
		if r := recover(); r != nil {
			res = "panic " + strings.ReplaceAll(fmt.Sprint(r), "\n", " ")
		}
	}()
	return f()
}

func eachLine(f func(fields []string) string) {
	sc := bufio.NewScanner(os.Stdin)
	sc.Buffer(make([]byte, 1<<20), 1<<26)
	for sc.Scan() {
		line := sc.Text()
		res := protect(line, func() string { return f(strings.Fields(line)) })
		fmt.Fprintln(out, res)
		out.Flush()
	}
}

func main() {
	defer out.Flush()
	if len(os.Args) < 2 {
		fmt.Fprintln(os.Stderr, "usage: gohook <subcommand>")
		os.Exit(2)
	}
	switch os.Args[1] {
	case "lossless-table":
		// the whole finite domain: 17 x 17 ordered pairs
		for _, s := range numericNames {
			for _, t := range numericNames {
				st, tt := types.NewPrimitive(s), types.NewPrimitive(t)
				fmt.Fprintf(out, "%s %s %s %v\n", s, t, typechecker.VerifCompat(st, tt), typechecker.VerifLossless(st, tt))
			}
		}
	case "prim-table":
		for _, s := range numericNames {
			fmt.Fprintf(out, "%s %d %v %v %d\n", s, types.GetNumberBitSize(s), types.IsSigned(s), types.IsFloatTypeName(s), types.NewPrimitive(s).Size())
		}
	case "fits":
		eachLine(func(f []string) string {
			if len(f) != 2 {
				return "bad-op"
			}
			return fmt.Sprint(typechecker.VerifFits(f[0], types.NewPrimitive(types.TYPE_NAME(f[1]))))
		})
	default:
		if !dispatchMore(os.Args[1]) {
			fmt.Fprintln(os.Stderr, "unknown subcommand", os.Args[1])
			os.Exit(2)
		}
	}
}
