//go:build verif

package main

// dispatchMore: further subcommands are added in sub_*.go files through this table.
var subcommands = map[string]func(){}

func dispatchMore(name string) bool {
	if f, ok := subcommands[name]; ok {
		f()
		return true
	}
	return false
}
