//go:build verif

package main

import (
	"encoding/hex"
	"fmt"
	"os"
	"path/filepath"
	"reflect"
	"sort"
	"strconv"
	"strings"

	"compiler/toml"
)

func showVal(v toml.TOMLValue, src string) string {
	switch x := v.(type) {
	case string:
		return "str:" + hex.EncodeToString([]byte(x))
	case bool:
		return fmt.Sprintf("bool:%v", x)
	case int:
		return fmt.Sprintf("int:%d", x)
	case float64:
		return "float:" + strconv.FormatFloat(x, 'g', -1, 64)
	}
	return "other"
}

func unhex(s string) (string, bool) {
	if s == "-" {
		return "", true
	}
	b, err := hex.DecodeString(s)
	return string(b), err == nil
}

func decodeVal(kind, h string) (toml.TOMLValue, bool) {
	s, ok := unhex(h)
	if !ok {
		return nil, false
	}
	switch kind {
	case "s":
		return s, true
	case "b":
		return s == "1", true
	case "i":
		n, err := strconv.Atoi(s)
		return n, err == nil
	case "f":
		f, err := strconv.ParseFloat(s, 64)
		return f, err == nil
	}
	return nil, false
}

func dumpData(d toml.TOMLData) string {
	var secs []string
	for s := range d {
		secs = append(secs, s)
	}
	sort.Strings(secs)
	var parts []string
	for _, s := range secs {
		var keys []string
		for k := range d[s] {
			keys = append(keys, k)
		}
		sort.Strings(keys)
		item := "[" + hex.EncodeToString([]byte(s)) + "]"
		for _, k := range keys {
			item += " " + hex.EncodeToString([]byte(k)) + "=" + showVal(d[s][k], "")
		}
		parts = append(parts, item)
	}
	return strings.Join(parts, " ;")
}

func init() {
	// toml-fmt <kind> <hex>  ->  <hex formatted> <hex FormatFloat raw | ->
	subcommands["toml-fmt"] = func() {
		eachLine(func(f []string) string {
			if len(f) != 2 {
				return "bad-op"
			}
			v, ok := decodeVal(f[0], f[1])
			if !ok {
				return "bad-op"
			}
			raw := "-"
			if fl, isf := v.(float64); isf {
				raw = hex.EncodeToString([]byte(strconv.FormatFloat(fl, 'f', -1, 64)))
			}
			return hex.EncodeToString([]byte(toml.VerifFormatValue(v))) + " " + raw
		})
	}
	// toml-parseval <hex>  -> value
	subcommands["toml-parseval"] = func() {
		eachLine(func(f []string) string {
			if len(f) != 1 {
				return "bad-op"
			}
			s, ok := unhex(f[0])
			if !ok {
				return "bad-op"
			}
			return showVal(toml.VerifParseValue(s), s)
		})
	}
	// toml-strip <hex> -> hex
	subcommands["toml-strip"] = func() {
		eachLine(func(f []string) string {
			if len(f) != 1 {
				return "bad-op"
			}
			s, ok := unhex(f[0])
			if !ok {
				return "bad-op"
			}
			r := toml.VerifStripInlineComment(s)
			if r == "" {
				return "-"
			}
			return hex.EncodeToString([]byte(r))
		})
	}
	// toml-file <hex content> -> ok <dump> | err
	subcommands["toml-file"] = func() {
		dir, _ := os.MkdirTemp("", "verif-toml")
		defer os.RemoveAll(dir)
		eachLine(func(f []string) string {
			if len(f) != 1 {
				return "bad-op"
			}
			s, ok := unhex(f[0])
			if !ok {
				return "bad-op"
			}
			p := filepath.Join(dir, "in.toml")
			os.WriteFile(p, []byte(s), 0644)
			d, err := toml.ParseTOMLFile(p)
			if err != nil {
				return "err"
			}
			return "ok " + dumpData(d)
		})
	}
	// toml-rt <section:key:kind:hexvalue>...  -> equal | diff <dump read> | <hex of written file>
	subcommands["toml-rt"] = func() {
		dir, _ := os.MkdirTemp("", "verif-toml")
		defer os.RemoveAll(dir)
		eachLine(func(f []string) string {
			data := make(toml.TOMLData)
			for _, item := range f {
				p := strings.Split(item, ":")
				if len(p) != 4 {
					return "bad-op"
				}
				sec, ok1 := unhex(p[0])
				key, ok2 := unhex(p[1])
				v, ok3 := decodeVal(p[2], p[3])
				if !ok1 || !ok2 || !ok3 {
					return "bad-op"
				}
				if data[sec] == nil {
					data[sec] = make(toml.TOMLTable)
				}
				data[sec][key] = v
			}
			path := filepath.Join(dir, "rt.toml")
			if err := toml.WriteTOMLFile(path, data, nil); err != nil {
				return "write-err"
			}
			written, _ := os.ReadFile(path)
			back, err := toml.ParseTOMLFile(path)
			if err != nil {
				return "parse-err " + hex.EncodeToString(written)
			}
			if reflect.DeepEqual(map[string]map[string]interface{}(normalize(data)), map[string]map[string]interface{}(normalize(back))) {
				return "equal " + hex.EncodeToString(written)
			}
			return "diff " + hex.EncodeToString(written) + " " + dumpData(back)
		})
	}
}

func normalize(d toml.TOMLData) map[string]map[string]interface{} {
	out := map[string]map[string]interface{}{}
	for s, t := range d {
		if len(t) == 0 {
			continue // a section without entries is not written; not part of the round-trip claim
		}
		m := map[string]interface{}{}
		for k, v := range t {
			m[k] = v
		}
		out[s] = m
	}
	return out
}
