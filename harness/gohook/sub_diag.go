//go:build verif

package main

import (
	"fmt"
	"regexp"
	"strconv"
	"strings"
	"sync"

	"compiler/internal/diagnostics"
	"compiler/internal/source"
)

var ansiRe = regexp.MustCompile("\x1b\\[[0-9;]*[A-Za-z]")

// one diagnostic: sev:hasLabel:nilLoc:file:line:col:id   (sev in e,w,i,h; file = name or `-` for a nil Filename)
func parseDiag(tok string) (*diagnostics.Diagnostic, error) {
	p := strings.Split(tok, ":")
	if len(p) != 7 {
		return nil, fmt.Errorf("bad diag")
	}
	var d *diagnostics.Diagnostic
	msg := "m" + p[6]
	switch p[0] {
	case "e":
		d = diagnostics.NewError(msg)
	case "w":
		d = diagnostics.NewWarning(msg)
	case "i":
		d = diagnostics.NewInfo(msg)
	case "h":
		d = diagnostics.NewInfo(msg)
		d.Severity = diagnostics.Hint
	default:
		return nil, fmt.Errorf("bad sev")
	}
	if p[1] == "1" {
		var loc *source.Location
		if p[2] != "1" {
			line, e1 := strconv.Atoi(p[4])
			col, e2 := strconv.Atoi(p[5])
			if e1 != nil || e2 != nil {
				return nil, fmt.Errorf("bad pos")
			}
			var fn *string
			if p[3] != "-" {
				s := p[3]
				fn = &s
			}
			loc = &source.Location{Filename: fn, Start: &source.Position{Line: line, Column: col}, End: &source.Position{Line: line, Column: col + 1}}
		}
		// bypass WithLabel (it dereferences loc.Filename): the comparator only reads Labels[0].Location
		d.Labels = append(d.Labels, diagnostics.Label{Location: loc, Message: "", Style: diagnostics.Primary})
	}
	return d, nil
}

func init() {
	// diag-bag: `<diag> <diag> ...` added in order -> `errors=<n> warnings=<n> has=<bool> len=<n> printed_errors=<n>`
	subcommands["diag-bag"] = func() {
		eachLine(func(f []string) string {
			bag := diagnostics.NewDiagnosticBag("x.fer")
			for _, t := range f {
				d, err := parseDiag(t)
				if err != nil {
					return "bad-op"
				}
				d.Labels = nil // emission of labelled diagnostics needs real sources; counters do not look at labels
				bag.Add(d)
			}
			text := ansiRe.ReplaceAllString(bag.EmitAllToString(), "")
			printed := 0
			for _, l := range strings.Split(text, "\n") {
				if strings.HasPrefix(strings.TrimSpace(l), "error") {
					printed++
				}
			}
			failedLine := strings.Contains(text, "Compilation failed")
			return fmt.Sprintf("errors=%d warnings=%d has=%v len=%d printed_errors=%d failed_line=%v", bag.ErrorCount(), bag.WarningCount(), bag.HasErrors(),
				len(bag.Diagnostics()), printed, failedLine)
		})
	}
	// diag-conc: `<goroutines> <diag> <diag> ...` every goroutine adds the whole list 50 times concurrently -> summary
	subcommands["diag-conc"] = func() {
		eachLine(func(f []string) string {
			if len(f) < 2 {
				return "bad-op"
			}
			g, err := strconv.Atoi(f[0])
			if err != nil || g < 1 || g > 64 {
				return "bad-op"
			}
			bag := diagnostics.NewDiagnosticBag("x.fer")
			var wg sync.WaitGroup
			start := make(chan struct{})
			for i := 0; i < g; i++ {
				wg.Add(1)
				go func() {
					defer wg.Done()
					<-start
					for rep := 0; rep < 50; rep++ {
						for _, t := range f[1:] {
							d, err := parseDiag(t)
							if err != nil {
								return
							}
							bag.Add(d)
						}
					}
				}()
			}
			close(start)
			wg.Wait()
			return fmt.Sprintf("errors=%d warnings=%d has=%v len=%d", bag.ErrorCount(), bag.WarningCount(), bag.HasErrors(), len(bag.Diagnostics()))
		})
	}
	// diag-sort: `<diag> ...` -> ids in the order sortDiagnostics leaves them
	subcommands["diag-sort"] = func() {
		eachLine(func(f []string) string {
			var ds []*diagnostics.Diagnostic
			for _, t := range f {
				d, err := parseDiag(t)
				if err != nil {
					return "bad-op"
				}
				ds = append(ds, d)
			}
			diagnostics.VerifSortDiagnostics(ds)
			var ids []string
			for _, d := range ds {
				ids = append(ids, d.Message[1:])
			}
			return strings.Join(ids, " ")
		})
	}
}
