//go:build verif

package main

import (
	"encoding/hex"
	"fmt"
	"regexp/syntax"
	"strings"

	"compiler/internal/diagnostics"
	"compiler/internal/frontend/lexer"
	"compiler/internal/tokens"
)

func init() {
	// lex-tables: line 1..n `P <index> <hex regex source> <hex literal or -> <hex token or ->`, then `K <hex keyword>`
	subcommands["lex-tables"] = func() {
		srcs, toks := lexer.VerifPatterns()
		for i, s := range srcs {
			lit := "-"
			if re, err := syntax.Parse(s, syntax.Perl); err == nil {
				re = re.Simplify()
				if re.Op == syntax.OpLiteral && re.Flags&syntax.FoldCase == 0 {
					lit = hex.EncodeToString([]byte(string(re.Rune)))
				}
			}
			tk := "-"
			if toks[i] != "" {
				tk = hex.EncodeToString([]byte(toks[i]))
			}
			fmt.Fprintf(out, "P %d %s %s %s\n", i, hex.EncodeToString([]byte(s)), lit, tk)
		}
		for _, k := range tokens.VerifKeywords() {
			fmt.Fprintf(out, "K %s\n", hex.EncodeToString([]byte(k)))
		}
	}
	// lex: `<hex source>` -> `<hex kind>,<hex value>,<l>.<c>.<i>,<l>.<c>.<i>;... | errs=<n>`
	subcommands["lex"] = func() {
		eachLine(func(f []string) string {
			src := []byte{}
			if len(f) == 1 && f[0] != "-" {
				b, err := hex.DecodeString(f[0])
				if err != nil {
					return "bad-op"
				}
				src = b
			} else if len(f) != 1 {
				return "bad-op"
			}
			bag := diagnostics.NewDiagnosticBag("x.fer")
			lx := lexer.New("x.fer", string(src), bag)
			ts := lx.Tokenize(false)
			var sb strings.Builder
			for _, t := range ts {
				fmt.Fprintf(&sb, "%s,%s,%d.%d.%d,%d.%d.%d;", hex.EncodeToString([]byte(t.Kind)), hex.EncodeToString([]byte(t.Value)),
					t.Start.Line, t.Start.Column, t.Start.Index, t.End.Line, t.End.Column, t.End.Index)
			}
			return fmt.Sprintf("%s | errs=%d", sb.String(), bag.ErrorCount())
		})
	}
}
