//go:build verif

package tokens

import "sort"

// VerifKeywords lists the keyword table.
func VerifKeywords() []string {
	var out []string
	for k := range keyWordsMap {
		out = append(out, string(k))
	}
	sort.Strings(out)
	return out
}
