//go:build verif

package main

import (
	"encoding/hex"
	"fmt"

	"compiler/internal/semantics/typechecker"
	"compiler/internal/types"
	"compiler/internal/utils/numeric"
)

func init() {
	// numparse: <hex literal text>  ->  ok <decimal> | err
	subcommands["numparse"] = func() {
		eachLine(func(f []string) string {
			if len(f) != 1 {
				return "bad-op"
			}
			b, err := hex.DecodeString(f[0])
			if err != nil {
				return "bad-op"
			}
			v, err := numeric.NewNumericValue(string(b))
			if err != nil {
				return "err"
			}
			return "ok " + v.String()
		})
	}
	// fitshex: <hex literal text> <type>  ->  true|false
	subcommands["fitshex"] = func() {
		eachLine(func(f []string) string {
			if len(f) != 2 {
				return "bad-op"
			}
			b, err := hex.DecodeString(f[0])
			if err != nil {
				return "bad-op"
			}
			return fmt.Sprint(typechecker.VerifFits(string(b), types.NewPrimitive(types.TYPE_NAME(f[1]))))
		})
	}
	// bigparse: <hex literal text>  ->  ok <decimal> | err       (numeric.StringToBigInt)
	subcommands["bigparse"] = func() {
		eachLine(func(f []string) string {
			if len(f) != 1 {
				return "bad-op"
			}
			b, err := hex.DecodeString(f[0])
			if err != nil {
				return "bad-op"
			}
			v, err := numeric.StringToBigInt(string(b))
			if err != nil {
				return "err"
			}
			return "ok " + v.String()
		})
	}
}
