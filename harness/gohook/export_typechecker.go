//go:build verif

package typechecker

import "compiler/internal/types"

// Exporting wrappers for the /verif harness (overlay-injected; not part of the repository).

func VerifCompat(src, tgt types.SemType) string {
	switch checkTypeCompatibility(src, tgt) {
	case Incompatible:
		return "incompatible"
	case Identical:
		return "identical"
	case ImplicitCastable:
		return "implicit"
	case ExplicitCastable:
		return "explicit"
	}
	return "unknown"
}

func VerifLossless(src, tgt types.SemType) bool { return isLosslessNumericConversion(src, tgt) }

func VerifFits(valueStr string, t types.SemType) bool { return fitsInType(valueStr, t) }
