//go:build verif

package main

import (
	"fmt"
	"strconv"
	"strings"

	qbe "compiler/internal/codegen/qbe_embeddings"
	"compiler/internal/mir"
	"compiler/internal/types"
)

// type expressions in prefix notation:
//   p<bytes>  primitive of that size (1,2,4,8,16,32; 0 = void)   b bool   y byte   f<bytes> float
//   P str   R &i32   W &'i64   D []i32   M map[i32]i32   I0 interface{}   I1 interface with one method
//   A<n> <ty>   O <ty>   E <ok> <err>   S<k> <ty>*k
type typeParser struct {
	toks []string
	pos  int
	sid  int
}

func (p *typeParser) next() (string, bool) {
	if p.pos >= len(p.toks) {
		return "", false
	}
	t := p.toks[p.pos]
	p.pos++
	return t, true
}

func primOfSize(n int) types.SemType {
	switch n {
	case 0:
		return types.TypeVoid
	case 1:
		return types.NewPrimitive(types.TYPE_I8)
	case 2:
		return types.NewPrimitive(types.TYPE_U16)
	case 4:
		return types.NewPrimitive(types.TYPE_I32)
	case 8:
		return types.NewPrimitive(types.TYPE_U64)
	case 16:
		return types.NewPrimitive(types.TYPE_I128)
	case 32:
		return types.NewPrimitive(types.TYPE_U256)
	}
	return nil
}

func floatOfSize(n int) types.SemType {
	switch n {
	case 4:
		return types.NewPrimitive(types.TYPE_F32)
	case 8:
		return types.NewPrimitive(types.TYPE_F64)
	case 16:
		return types.NewPrimitive(types.TYPE_F128)
	case 32:
		return types.NewPrimitive(types.TYPE_F256)
	}
	return nil
}

func (p *typeParser) parse() types.SemType {
	t, ok := p.next()
	if !ok {
		return nil
	}
	switch {
	case t == "b":
		return types.TypeBool
	case t == "y":
		return types.NewPrimitive(types.TYPE_BYTE)
	case t == "P":
		return types.TypeString
	case t == "R":
		return types.NewReference(types.NewPrimitive(types.TYPE_I32))
	case t == "W":
		return types.NewMutableReference(types.NewPrimitive(types.TYPE_I64))
	case t == "D":
		return types.NewArray(types.NewPrimitive(types.TYPE_I32), -1)
	case t == "M":
		return types.NewMap(types.NewPrimitive(types.TYPE_I32), types.NewPrimitive(types.TYPE_I32))
	case t == "I0":
		return types.NewInterface(nil)
	case t == "I1":
		return types.NewInterface([]types.InterfaceMethod{{Name: "m", FuncType: types.NewFunction(nil, types.TypeVoid)}})
	case t == "O":
		in := p.parse()
		if in == nil {
			return nil
		}
		return types.NewOptional(in)
	case t == "E":
		okT := p.parse()
		errT := p.parse()
		if okT == nil || errT == nil {
			return nil
		}
		return types.NewResult(okT, errT)
	case strings.HasPrefix(t, "p"):
		n, err := strconv.Atoi(t[1:])
		if err != nil {
			return nil
		}
		return primOfSize(n)
	case strings.HasPrefix(t, "f"):
		n, err := strconv.Atoi(t[1:])
		if err != nil {
			return nil
		}
		return floatOfSize(n)
	case strings.HasPrefix(t, "A"):
		n, err := strconv.Atoi(t[1:])
		if err != nil || n < 0 {
			return nil
		}
		el := p.parse()
		if el == nil {
			return nil
		}
		return types.NewArray(el, n)
	case strings.HasPrefix(t, "S"):
		k, err := strconv.Atoi(t[1:])
		if err != nil || k < 0 {
			return nil
		}
		fields := make([]types.StructField, 0, k)
		for i := 0; i < k; i++ {
			ft := p.parse()
			if ft == nil {
				return nil
			}
			fields = append(fields, types.StructField{Name: fmt.Sprintf("F%d", i), Type: ft})
		}
		p.sid++
		st := types.NewStruct(fmt.Sprintf("s%d", p.sid), fields)
		if p.sid%2 == 0 { // every other struct is wrapped in a named type, as `type T struct{…}` is
			return types.NewNamed(fmt.Sprintf("T%d", p.sid), st)
		}
		return st
	}
	return nil
}

func init() {
	// layout: <ps> <type expr>  ->  <size> <align> [offsets…] [tag <off>] [flag <off>]
	subcommands["layout"] = func() {
		eachLine(func(f []string) string {
			if len(f) < 2 {
				return "bad-op"
			}
			ps, err := strconv.Atoi(f[0])
			if err != nil {
				return "bad-op"
			}
			p := &typeParser{toks: f[1:]}
			t := p.parse()
			if t == nil || p.pos != len(p.toks) {
				return "bad-op"
			}
			dl := mir.NewDataLayout(ps)
			var sb strings.Builder
			fmt.Fprintf(&sb, "%d %d", dl.SizeOf(t), dl.AlignOf(t))
			switch tt := types.UnwrapType(t).(type) {
			case *types.StructType:
				sl := dl.StructLayout(tt)
				for _, fl := range sl.Fields {
					fmt.Fprintf(&sb, " %d", fl.Offset)
				}
			case *types.ResultType:
				off, ok := qbe.VerifResultTagOffset(ps, tt)
				if !ok {
					sb.WriteString(" tag none")
				} else {
					fmt.Fprintf(&sb, " tag %d", off)
				}
			case *types.OptionalType:
				fmt.Fprintf(&sb, " flag %d", dl.SizeOf(tt.Inner))
			}
			return sb.String()
		})
	}
}
