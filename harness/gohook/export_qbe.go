//go:build verif

package qbe

import (
	"compiler/internal/mir"
	"compiler/internal/types"
)

// VerifResultTagOffset exposes Generator.resultTagOffset for a given pointer size.
func VerifResultTagOffset(ps int, res *types.ResultType) (int, bool) {
	g := &Generator{layout: mir.NewDataLayout(ps)}
	return g.resultTagOffset(res, nil)
}
