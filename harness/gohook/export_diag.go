//go:build verif

package diagnostics

// VerifSortDiagnostics exposes sortDiagnostics.
func VerifSortDiagnostics(ds []*Diagnostic) { sortDiagnostics(ds) }
