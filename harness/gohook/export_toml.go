//go:build verif

package toml

// Exporting wrappers for the /verif harness (overlay-injected).

func VerifFormatValue(v TOMLValue) string { return formatTOMLValue(v) }
func VerifParseValue(s string) TOMLValue  { return parseValue(s) }
func VerifStripInlineComment(s string) string { return stripInlineComment(s) }
func VerifParseKV(line string) (string, TOMLValue, bool) {
	data := make(TOMLData)
	if err := parseKeyValuePair(data, line, ""); err != nil {
		return "", nil, false
	}
	for k, v := range data["default"] {
		return k, v, true
	}
	return "", nil, false
}
