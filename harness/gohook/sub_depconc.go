//go:build verif

package main

import (
	"fmt"
	"go/ast"
	"go/parser"
	"go/token"
	"sort"
	"strconv"
	"strings"
	"sync"

	"compiler/internal/context_v2"
	"compiler/internal/phase"
)

func init() {
	// depgraph-conc: `<rounds> <a>b ...` — every round: a fresh context, one goroutine per edge attempt, all released by a
	// barrier.  Output: `<verdict string>:<count>` for each distinct vector of verdicts seen (1 accepted / 0 cycle), sorted,
	// then `| cyclic=<rounds whose final graph has a cycle> dropped=<rounds where the topological order lost a module>`
	subcommands["depgraph-conc"] = func() {
		eachLine(func(f []string) string {
			if len(f) < 2 {
				return "bad-op"
			}
			rounds, err := strconv.Atoi(f[0])
			if err != nil {
				return "bad-op"
			}
			type edge struct{ a, b string }
			var edges []edge
			mods := map[string]bool{}
			for _, e := range f[1:] {
				p := strings.Split(e, ">")
				if len(p) != 2 {
					return "bad-op"
				}
				edges = append(edges, edge{p[0], p[1]})
				mods[p[0]], mods[p[1]] = true, true
			}
			seen := map[string]int{}
			cyclic, dropped := 0, 0
			for r := 0; r < rounds; r++ {
				ctx := context_v2.New(&context_v2.Config{Extension: ".fer"}, false)
				for m := range mods {
					ctx.AddModule(m, &context_v2.Module{FilePath: m + ".fer", Phase: phase.PhaseParsed})
				}
				verdicts := make([]byte, len(edges))
				start := make(chan struct{})
				var wg sync.WaitGroup
				for i, e := range edges {
					wg.Add(1)
					go func(i int, e edge) {
						defer wg.Done()
						<-start
						if err := ctx.AddDependency(e.a, e.b); err != nil {
							verdicts[i] = '0'
						} else {
							verdicts[i] = '1'
						}
					}(i, e)
				}
				close(start)
				wg.Wait()
				seen[string(verdicts)]++
				if graphHasCycle(ctx.DepGraph) {
					cyclic++
				}
				ctx.ComputeTopologicalOrder()
				have := map[string]bool{}
				for _, m := range ctx.GetModuleNames() {
					have[m] = true
				}
				for m := range mods {
					if !have[m] {
						dropped++
						break
					}
				}
			}
			var ks []string
			for k := range seen {
				ks = append(ks, k)
			}
			sort.Strings(ks)
			var out []string
			for _, k := range ks {
				out = append(out, fmt.Sprintf("%s:%d", k, seen[k]))
			}
			return fmt.Sprintf("%s | cyclic=%d dropped=%d", strings.Join(out, " "), cyclic, dropped)
		})
	}

	// lockfacts: `<file> <method>` — lock discipline of a method, extracted from the source:
	// `<first lock call or ->;<defer unlock or ->;other=<number of further Lock/Unlock/RLock/RUnlock calls>`
	subcommands["lockfacts"] = func() {
		eachLine(func(f []string) string {
			if len(f) != 2 {
				return "bad-op"
			}
			fset := token.NewFileSet()
			file, err := parser.ParseFile(fset, f[0], nil, 0)
			if err != nil {
				return "parse-error"
			}
			for _, d := range file.Decls {
				fd, ok := d.(*ast.FuncDecl)
				if !ok || fd.Name.Name != f[1] || fd.Recv == nil || fd.Body == nil {
					continue
				}
				first, deferred, other := "-", "-", 0
				firstPos, lastUse := token.NoPos, token.NoPos
				lockName := func(c *ast.CallExpr) string {
					if s, ok := c.Fun.(*ast.SelectorExpr); ok {
						switch s.Sel.Name {
						case "Lock", "Unlock", "RLock", "RUnlock":
							if in, ok := s.X.(*ast.SelectorExpr); ok && in.Sel.Name == "mu" {
								return s.Sel.Name
							}
						}
					}
					return ""
				}
				ast.Inspect(fd.Body, func(n ast.Node) bool {
					switch x := n.(type) {
					case *ast.DeferStmt:
						if nm := lockName(x.Call); nm != "" {
							if deferred == "-" {
								deferred = nm
							} else {
								other++
							}
							return false
						}
					case *ast.CallExpr:
						if nm := lockName(x); nm != "" {
							if first == "-" {
								first = nm
								firstPos = x.Pos()
							} else {
								other++
							}
						}
					case *ast.SelectorExpr:
						if x.Sel.Name == "DepGraph" || x.Sel.Name == "findCycle" {
							if lastUse == token.NoPos || x.Pos() > lastUse {
								lastUse = x.Pos()
							}
							if firstPos == token.NoPos || x.Pos() < firstPos {
								other += 100 // shared state touched before the lock is taken
							}
						}
					}
					return true
				})
				return fmt.Sprintf("%s;%s;other=%d", first, deferred, other)
			}
			return "no-such-method"
		})
	}
}

func graphHasCycle(g map[string][]string) bool {
	state := map[string]int{}
	var visit func(n string) bool
	visit = func(n string) bool {
		state[n] = 1
		for _, m := range g[n] {
			if state[m] == 1 {
				return true
			}
			if state[m] == 0 && visit(m) {
				return true
			}
		}
		state[n] = 2
		return false
	}
	for n := range g {
		if state[n] == 0 && visit(n) {
			return true
		}
	}
	return false
}
