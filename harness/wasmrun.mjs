// Runs a Ferret .wasm module with the runtime shipped in the CURRENT /repo tree.
// usage: node wasmrun.mjs <file.wasm>      exit 0 = normal completion; 3 = trap/panic; stdout = program output
import { readFileSync } from "node:fs";
import { pathToFileURL } from "node:url";
const repo = process.env.VERIF_REPO || "/repo";
const { createFerretRuntime } = await import(pathToFileURL(repo + "/runtime/wasm/runtime.js").href);
const bytes = readFileSync(process.argv[2]);
const rt = createFerretRuntime();
try {
  const { instance } = await WebAssembly.instantiate(bytes, rt.imports);
  rt.bind(instance);
  instance.exports.main();
} catch (e) {
  process.stderr.write(String(e && e.message ? e.message : e) + "\n");
  process.exitCode = 3;
}
