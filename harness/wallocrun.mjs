// Drives the heap of the runtime shipped in the CURRENT /repo tree (runtime/wasm/runtime.js: bind, ferret_alloc) over a real
// WebAssembly.Memory.  stdin: one runtime instance per line `<dataEnd> <pages> <size> <size> …`
// stdout: for each allocation `addr:memBytes:ok|oob` (ok = the block's last byte can be written), same format as `fvdriver walloc`.
import { readFileSync } from "node:fs";
import { pathToFileURL } from "node:url";
const repo = process.env.VERIF_REPO || "/repo";
const { createFerretRuntime } = await import(pathToFileURL(repo + "/runtime/wasm/runtime.js").href);
const out = [];
for (const line of readFileSync(0, "utf8").split("\n")) {
  const f = line.split(" ").filter((x) => x !== "");
  if (f.length === 0) continue;
  if (f.length < 2 || f.some((x) => !/^\d+$/.test(x))) { out.push("bad-op"); continue; }
  const [dataEnd, pages, ...sizes] = f.map(Number);
  const rt = createFerretRuntime();
  const memory = new WebAssembly.Memory({ initial: pages });
  rt.bind({ exports: { memory, __data_end: dataEnd } });
  const res = [];
  try {
    for (const n of sizes) {
      const addr = rt.imports.ferret.ferret_alloc(n);
      let ok = addr <= memory.buffer.byteLength;
      if (n > 0) {
        try { new DataView(memory.buffer).setUint8(addr + n - 1, 0xa5); ok = true; } catch (e) { ok = false; }
      }
      res.push(addr + ":" + memory.buffer.byteLength + ":" + (ok ? "ok" : "oob"));
    }
  } catch (e) {
    res.push("threw:" + String(e && e.message ? e.message : e).replace(/\s+/g, "_"));
  }
  out.push(res.join(" "));
}
process.stdout.write(out.join("\n") + "\n");
