// C harness for runtime/core/bigint.c (C16, C10): line protocol on stdin/stdout.
// Built from the CURRENT tree: the source is #included so static functions are reachable.
//   line:  <op> <kind> <args...>     (same as `fvdriver limbs` minus the leading limb width)
#include "bigint.c"
#include <inttypes.h>

#define MAXL 16
static int hexval(int c) {
    if (c >= '0' && c <= '9') return c - '0';
    if (c >= 'a' && c <= 'f') return 10 + c - 'a';
    if (c >= 'A' && c <= 'F') return 10 + c - 'A';
    return -1;
}
// parse big-endian hex into n little-endian limbs (mod 2^(n*bits))
static int parse_hex(const char* s, ferret_limb_t* out, int n) {
    memset(out, 0, sizeof(ferret_limb_t) * (size_t)n);
    size_t len = strlen(s);
    if (len == 0) return 0;
    for (size_t k = 0; k < len; k++) {
        int d = hexval((unsigned char)s[len - 1 - k]);
        if (d < 0) return 0;
        size_t bit = k * 4;
        size_t li = bit / FERRET_LIMB_BITS;
        if (li >= (size_t)n) continue;
        out[li] |= (ferret_limb_t)d << (bit % FERRET_LIMB_BITS);
    }
    return 1;
}
static void print_hex(const ferret_limb_t* v, int n) {
    for (int i = n - 1; i >= 0; i--) {
#if FERRET_LIMB_BITS == 64
        printf("%016" PRIx64, (uint64_t)v[i]);
#else
        printf("%08" PRIx32, (uint32_t)v[i]);
#endif
    }
    printf("\n");
}
static int unhex_bytes(const char* h, char* out, size_t cap) {
    size_t len = strlen(h);
    if (len % 2 || len / 2 + 1 > cap) return 0;
    for (size_t i = 0; i < len / 2; i++) {
        int a = hexval((unsigned char)h[2 * i]), b = hexval((unsigned char)h[2 * i + 1]);
        if (a < 0 || b < 0) return 0;
        out[i] = (char)(a * 16 + b);
    }
    out[len / 2] = 0;
    return 1;
}

#define L128 FERRET_U128_LIMBS
#define L256 FERRET_U256_LIMBS

#define BIN(K, T, n, f) do { T x, y, r; memcpy(x.words, a, sizeof(x.words)); memcpy(y.words, b, sizeof(y.words)); \
    r = f(x, y); print_hex(r.words, n); } while (0)
#define BINP(K, T, n, f) do { T x, y, r; memcpy(x.words, a, sizeof(x.words)); memcpy(y.words, b, sizeof(y.words)); \
    f(&x, &y, &r); print_hex(r.words, n); } while (0)
#define CMP(T, f) do { T x, y; memcpy(x.words, a, sizeof(x.words)); memcpy(y.words, b, sizeof(y.words)); \
    printf("%s\n", f(x, y) ? "true" : "false"); } while (0)
#define UN(T, n, f) do { T x, r; memcpy(x.words, a, sizeof(x.words)); r = f(x); print_hex(r.words, n); } while (0)
#define SH(T, n, f) do { T x, r; memcpy(x.words, a, sizeof(x.words)); r = f(x, sh); print_hex(r.words, n); } while (0)
#define STR(T, f) do { T x; memcpy(x.words, a, sizeof(x.words)); char* s = f(x); printf("%s\n", s ? s : "null"); free(s); } while (0)
#define FROMSTR(T, n, f) do { T r = f(buf); print_hex(r.words, n); } while (0)

#define DISPATCH4(MAC, i128f, u128f, i256f, u256f) \
    if (!strcmp(kind, "i128")) MAC(0, ferret_i128, L128, i128f); \
    else if (!strcmp(kind, "u128")) MAC(0, ferret_u128, L128, u128f); \
    else if (!strcmp(kind, "i256")) MAC(0, ferret_i256, L256, i256f); \
    else if (!strcmp(kind, "u256")) MAC(0, ferret_u256, L256, u256f); \
    else printf("bad-op\n")

int main(int argc, char** argv) {
    int use_ptr = argc > 1 && !strcmp(argv[1], "ptr");
    (void)use_ptr;
    static char line[1 << 16];
    static char buf[1 << 15];
    while (fgets(line, sizeof line, stdin)) {
        char* tok[8]; int nt = 0;
        for (char* p = strtok(line, " \r\n"); p && nt < 8; p = strtok(NULL, " \r\n")) tok[nt++] = p;
        if (nt < 2) { printf("bad-op\n"); fflush(stdout); continue; }
        const char* op = tok[0]; const char* kind = tok[1];
        ferret_limb_t a[MAXL], b[MAXL], r[MAXL], r2[MAXL];
        memset(a, 0, sizeof a); memset(b, 0, sizeof b); memset(r, 0, sizeof r); memset(r2, 0, sizeof r2);
        int gn = 0;
        if (kind[0] == 'g') { gn = atoi(kind + 1); if (gn < 1 || gn > MAXL) { printf("bad-op\n"); fflush(stdout); continue; } }
        int n = gn ? gn : (strstr(kind, "128") ? L128 : L256);
        int is_bin = !strcmp(op, "add") || !strcmp(op, "sub") || !strcmp(op, "mul") || !strcmp(op, "div") || !strcmp(op, "mod") ||
                     !strcmp(op, "pow") || !strcmp(op, "and") || !strcmp(op, "or") || !strcmp(op, "xor") || !strcmp(op, "eq") ||
                     !strcmp(op, "lt") || !strcmp(op, "gt") || !strcmp(op, "cmpu");
        if (is_bin) {
            if (nt != 4 || !parse_hex(tok[2], a, n) || !parse_hex(tok[3], b, n)) { printf("bad-op\n"); fflush(stdout); continue; }
            if (gn) {
                if (!strcmp(op, "add")) { ferret_add_limbs(a, b, r, n); print_hex(r, n); }
                else if (!strcmp(op, "sub")) { ferret_sub_limbs(a, b, r, n); print_hex(r, n); }
                else if (!strcmp(op, "mul")) { ferret_mul_limbs(a, b, r, n); print_hex(r, n); }
                else if (!strcmp(op, "div")) { ferret_div_mod_u_limbs(a, b, r, r2, n); print_hex(r, n); }
                else if (!strcmp(op, "mod")) { ferret_div_mod_u_limbs(a, b, r, r2, n); print_hex(r2, n); }
                else if (!strcmp(op, "cmpu")) { printf("%d\n", ferret_cmp_u_limbs(a, b, n)); }
                else if (!strcmp(op, "lt")) { printf("%s\n", ferret_cmp_u_limbs(a, b, n) < 0 ? "true" : "false"); }
                else printf("bad-op\n");
            }
            else if (!strcmp(op, "add")) { if (use_ptr) { DISPATCH4(BINP, ferret_i128_add_ptr, ferret_u128_add_ptr, ferret_i256_add_ptr, ferret_u256_add_ptr); } else { DISPATCH4(BIN, ferret_i128_add, ferret_u128_add, ferret_i256_add, ferret_u256_add); } }
            else if (!strcmp(op, "sub")) { if (use_ptr) { DISPATCH4(BINP, ferret_i128_sub_ptr, ferret_u128_sub_ptr, ferret_i256_sub_ptr, ferret_u256_sub_ptr); } else { DISPATCH4(BIN, ferret_i128_sub, ferret_u128_sub, ferret_i256_sub, ferret_u256_sub); } }
            else if (!strcmp(op, "mul")) { if (use_ptr) { DISPATCH4(BINP, ferret_i128_mul_ptr, ferret_u128_mul_ptr, ferret_i256_mul_ptr, ferret_u256_mul_ptr); } else { DISPATCH4(BIN, ferret_i128_mul, ferret_u128_mul, ferret_i256_mul, ferret_u256_mul); } }
            else if (!strcmp(op, "div")) { if (use_ptr) { DISPATCH4(BINP, ferret_i128_div_ptr, ferret_u128_div_ptr, ferret_i256_div_ptr, ferret_u256_div_ptr); } else { DISPATCH4(BIN, ferret_i128_div, ferret_u128_div, ferret_i256_div, ferret_u256_div); } }
            else if (!strcmp(op, "mod")) { if (use_ptr) { DISPATCH4(BINP, ferret_i128_mod_ptr, ferret_u128_mod_ptr, ferret_i256_mod_ptr, ferret_u256_mod_ptr); } else { DISPATCH4(BIN, ferret_i128_mod, ferret_u128_mod, ferret_i256_mod, ferret_u256_mod); } }
            else if (!strcmp(op, "pow")) { DISPATCH4(BIN, ferret_i128_pow, ferret_u128_pow, ferret_i256_pow, ferret_u256_pow); }
            else if (!strcmp(op, "and")) { DISPATCH4(BIN, ferret_i128_and, ferret_u128_and, ferret_i256_and, ferret_u256_and); }
            else if (!strcmp(op, "or")) { DISPATCH4(BIN, ferret_i128_or, ferret_u128_or, ferret_i256_or, ferret_u256_or); }
            else if (!strcmp(op, "xor")) { DISPATCH4(BIN, ferret_i128_xor, ferret_u128_xor, ferret_i256_xor, ferret_u256_xor); }
            else if (!strcmp(op, "eq")) { if (!strcmp(kind, "i128")) CMP(ferret_i128, ferret_i128_eq); else if (!strcmp(kind, "u128")) CMP(ferret_u128, ferret_u128_eq); else if (!strcmp(kind, "i256")) CMP(ferret_i256, ferret_i256_eq); else CMP(ferret_u256, ferret_u256_eq); }
            else if (!strcmp(op, "lt")) { if (!strcmp(kind, "i128")) CMP(ferret_i128, ferret_i128_lt); else if (!strcmp(kind, "u128")) CMP(ferret_u128, ferret_u128_lt); else if (!strcmp(kind, "i256")) CMP(ferret_i256, ferret_i256_lt); else CMP(ferret_u256, ferret_u256_lt); }
            else if (!strcmp(op, "gt")) { if (!strcmp(kind, "i128")) CMP(ferret_i128, ferret_i128_gt); else if (!strcmp(kind, "u128")) CMP(ferret_u128, ferret_u128_gt); else if (!strcmp(kind, "i256")) CMP(ferret_i256, ferret_i256_gt); else CMP(ferret_u256, ferret_u256_gt); }
            else printf("bad-op\n");
        } else if (!strcmp(op, "not") || !strcmp(op, "neg") || !strcmp(op, "tostr") || !strcmp(op, "to64")) {
            if (nt != 3 || !parse_hex(tok[2], a, n)) { printf("bad-op\n"); fflush(stdout); continue; }
            if (!strcmp(op, "neg")) { ferret_negate_limbs(a, n); print_hex(a, n); }
            else if (!strcmp(op, "not")) {
                if (!strcmp(kind, "i128")) UN(ferret_i128, L128, ferret_i128_not); else if (!strcmp(kind, "u128")) UN(ferret_u128, L128, ferret_u128_not);
                else if (!strcmp(kind, "i256")) UN(ferret_i256, L256, ferret_i256_not); else if (!strcmp(kind, "u256")) UN(ferret_u256, L256, ferret_u256_not); else printf("bad-op\n");
            } else if (!strcmp(op, "tostr")) {
                if (!strcmp(kind, "i128")) STR(ferret_i128, ferret_i128_to_string); else if (!strcmp(kind, "u128")) STR(ferret_u128, ferret_u128_to_string);
                else if (!strcmp(kind, "i256")) STR(ferret_i256, ferret_i256_to_string); else if (!strcmp(kind, "u256")) STR(ferret_u256, ferret_u256_to_string); else printf("bad-op\n");
            } else {
                uint64_t v = 0;
                if (!strcmp(kind, "i128")) { ferret_i128 x; memcpy(x.words, a, sizeof x.words); v = (uint64_t)ferret_i128_to_i64(x); }
                else if (!strcmp(kind, "u128")) { ferret_u128 x; memcpy(x.words, a, sizeof x.words); v = ferret_u128_to_u64(x); }
                else if (!strcmp(kind, "i256")) { ferret_i256 x; memcpy(x.words, a, sizeof x.words); v = (uint64_t)ferret_i256_to_i64(x); }
                else if (!strcmp(kind, "u256")) { ferret_u256 x; memcpy(x.words, a, sizeof x.words); v = ferret_u256_to_u64(x); }
                printf("%016" PRIx64 "\n", v);
            }
        } else if (!strcmp(op, "shl") || !strcmp(op, "shr")) {
            if (nt != 4 || !parse_hex(tok[2], a, n)) { printf("bad-op\n"); fflush(stdout); continue; }
            int sh = atoi(tok[3]);
            if (!strcmp(op, "shl")) { if (!strcmp(kind, "i128")) SH(ferret_i128, L128, ferret_i128_shl); else if (!strcmp(kind, "u128")) SH(ferret_u128, L128, ferret_u128_shl); else if (!strcmp(kind, "i256")) SH(ferret_i256, L256, ferret_i256_shl); else if (!strcmp(kind, "u256")) SH(ferret_u256, L256, ferret_u256_shl); else printf("bad-op\n"); }
            else { if (!strcmp(kind, "i128")) SH(ferret_i128, L128, ferret_i128_shr); else if (!strcmp(kind, "u128")) SH(ferret_u128, L128, ferret_u128_shr); else if (!strcmp(kind, "i256")) SH(ferret_i256, L256, ferret_i256_shr); else if (!strcmp(kind, "u256")) SH(ferret_u256, L256, ferret_u256_shr); else printf("bad-op\n"); }
        } else if (!strcmp(op, "fromstr")) {
            buf[0] = 0;
            if (nt == 3 && !unhex_bytes(tok[2], buf, sizeof buf)) { printf("bad-op\n"); fflush(stdout); continue; }
            if (!strcmp(kind, "i128")) FROMSTR(ferret_i128, L128, ferret_i128_from_string); else if (!strcmp(kind, "u128")) FROMSTR(ferret_u128, L128, ferret_u128_from_string);
            else if (!strcmp(kind, "i256")) FROMSTR(ferret_i256, L256, ferret_i256_from_string); else if (!strcmp(kind, "u256")) FROMSTR(ferret_u256, L256, ferret_u256_from_string); else printf("bad-op\n");
        } else if (!strcmp(op, "from64")) {
            if (nt != 3) { printf("bad-op\n"); fflush(stdout); continue; }
            uint64_t v = strtoull(tok[2], NULL, 16);
            if (!strcmp(kind, "i128")) { ferret_i128 x = ferret_i128_from_i64((int64_t)v); print_hex(x.words, L128); }
            else if (!strcmp(kind, "u128")) { ferret_u128 x = ferret_u128_from_u64(v); print_hex(x.words, L128); }
            else if (!strcmp(kind, "i256")) { ferret_i256 x = ferret_i256_from_i64((int64_t)v); print_hex(x.words, L256); }
            else if (!strcmp(kind, "u256")) { ferret_u256 x = ferret_u256_from_u64(v); print_hex(x.words, L256); }
            else printf("bad-op\n");
        } else printf("bad-op\n");
        fflush(stdout);
    }
    return 0;
}
