// C harness for runtime/core/map.c, array.c (C17): stateful line protocol, built from the CURRENT tree
// under ASan+UBSan.  See /verif/checks/c17.py for the protocol.
#define _POSIX_C_SOURCE 200809L
#include <stdio.h>
#include <string.h>
#include <stdlib.h>
#include <stdint.h>
#include "map.c"
#include "array.c"

static int hexval(int c) { if (c >= '0' && c <= '9') return c - '0'; if (c >= 'a' && c <= 'f') return 10 + c - 'a'; return -1; }
static size_t unhex(const char* h, uint8_t* out, size_t cap) {
    if (!strcmp(h, "-")) return 0;
    size_t n = strlen(h) / 2; if (n > cap) n = cap;
    for (size_t i = 0; i < n; i++) out[i] = (uint8_t)(hexval(h[2*i]) * 16 + hexval(h[2*i+1]));
    return n;
}
static void puthex(const uint8_t* b, size_t n) { if (n == 0) printf("-"); for (size_t i = 0; i < n; i++) printf("%02x", b[i]); }

static ferret_map_t* map = NULL; static char kind[16]; static size_t ksize, vsize;
static char** strs = NULL; static size_t nstrs = 0, capstrs = 0;
static ferret_array_t* arr = NULL; static size_t esize;

static void reset_map(void) {
    if (map) { ferret_map_destroy(map); map = NULL; }
    for (size_t i = 0; i < nstrs; i++) free(strs[i]);
    nstrs = 0;
}
// builds the key object the map API expects; returns pointer into a heap buffer of exactly ksize bytes
static void* mkkey(const char* hex) {
    uint8_t tmp[4096]; size_t n = unhex(hex, tmp, sizeof tmp);
    uint8_t* k = (uint8_t*)malloc(ksize ? ksize : 1);
    if (!strcmp(kind, "str")) {
        char* s = (char*)malloc(n + 1); memcpy(s, tmp, n); s[n] = 0;
        if (nstrs == capstrs) { capstrs = capstrs ? capstrs * 2 : 64; strs = (char**)realloc(strs, capstrs * sizeof(char*)); }
        strs[nstrs++] = s;
        memcpy(k, &s, sizeof(char*));
    } else {
        memset(k, 0, ksize); memcpy(k, tmp, n < ksize ? n : ksize);
    }
    return k;
}
static void putkey(const void* k) {
    if (!strcmp(kind, "str")) { const char* s = *(const char* const*)k; puthex((const uint8_t*)s, strlen(s)); }
    else puthex((const uint8_t*)k, ksize);
}

int main(void) {
    static char line[1 << 20];
    while (fgets(line, sizeof line, stdin)) {
        char* tok[4]; int nt = 0;
        for (char* p = strtok(line, " \r\n"); p && nt < 4; p = strtok(NULL, " \r\n")) tok[nt++] = p;
        if (nt == 0) { printf("bad-op\n"); fflush(stdout); continue; }
        const char* op = tok[0];
        if (!strcmp(op, "mnew") && nt == 3) {
            reset_map(); strncpy(kind, tok[1], sizeof kind - 1); vsize = (size_t)atoi(tok[2]);
            if (!strcmp(kind, "i32")) { ksize = 4; map = ferret_map_new_i32(ksize, vsize); }
            else if (!strcmp(kind, "i64")) { ksize = 8; map = ferret_map_new_i64(ksize, vsize); }
            else if (!strcmp(kind, "str")) { ksize = sizeof(char*); map = ferret_map_new_str(ksize, vsize); }
            else { ksize = (size_t)atoi(kind + 1); map = ferret_map_new_bytes(ksize, vsize); }
            printf(map ? "ok\n" : "fail\n");
        } else if (!strcmp(op, "mfrom") && nt == 4) {
            // mfrom <kind> <vsize> k=v,k=v,...
            reset_map(); strncpy(kind, tok[1], sizeof kind - 1); vsize = (size_t)atoi(tok[2]);
            if (!strcmp(kind, "i32")) ksize = 4; else if (!strcmp(kind, "i64")) ksize = 8; else if (!strcmp(kind, "str")) ksize = sizeof(char*); else ksize = (size_t)atoi(kind + 1);
            size_t count = 0; if (strcmp(tok[3], "-")) { count = 1; for (char* p = tok[3]; *p; p++) if (*p == ',') count++; }
            uint8_t* keys = (uint8_t*)malloc(count * ksize + 1); uint8_t* vals = (uint8_t*)malloc(count * vsize + 1);
            size_t i = 0; char* save = NULL;
            if (count) for (char* item = strtok_r(tok[3], ",", &save); item; item = strtok_r(NULL, ",", &save), i++) {
                char* eq = strchr(item, '='); *eq = 0;
                void* k = mkkey(item); memcpy(keys + i * ksize, k, ksize); free(k);
                memset(vals + i * vsize, 0, vsize); unhex(eq + 1, vals + i * vsize, vsize);
            }
            if (!strcmp(kind, "i32")) map = ferret_map_from_pairs_i32(ksize, vsize, keys, vals, count);
            else if (!strcmp(kind, "i64")) map = ferret_map_from_pairs_i64(ksize, vsize, keys, vals, count);
            else if (!strcmp(kind, "str")) map = ferret_map_from_pairs_str(ksize, vsize, keys, vals, count);
            else map = ferret_map_from_pairs_bytes(ksize, vsize, keys, vals, count);
            free(keys); free(vals);
            printf(map ? "ok\n" : "fail\n");
        } else if (!strcmp(op, "mset") && nt == 3 && map) {
            void* k = mkkey(tok[1]); uint8_t* v = (uint8_t*)calloc(vsize ? vsize : 1, 1); unhex(tok[2], v, vsize);
            printf(ferret_map_set(map, k, v) ? "ok\n" : "fail\n"); free(k); free(v);
        } else if (!strcmp(op, "mget") && nt == 2 && map) {
            void* k = mkkey(tok[1]); void* v = ferret_map_get(map, k);
            if (v) { puthex((const uint8_t*)v, vsize); printf("\n"); } else printf("absent\n"); free(k);
        } else if (!strcmp(op, "mopt") && nt == 2 && map) {
            void* k = mkkey(tok[1]); uint8_t* out = (uint8_t*)malloc(vsize + 1); memset(out, 0xAA, vsize + 1);
            ferret_map_get_optional_out(map, k, out);
            if (out[vsize] == 1) { printf("some "); puthex(out, vsize); printf("\n"); } else if (out[vsize] == 0) printf("none\n"); else printf("flag-unset\n");
            free(out); free(k);
        } else if (!strcmp(op, "mhas") && nt == 2 && map) {
            void* k = mkkey(tok[1]); printf(ferret_map_has(map, k) ? "true\n" : "false\n"); free(k);
        } else if (!strcmp(op, "msize") && map) {
            printf("%zu\n", ferret_map_size(map));
        } else if (!strcmp(op, "miter") && map) {
            ferret_map_iter_t it; int first = 1;
            if (ferret_map_iter_begin(map, &it)) {
                void* k; void* v;
                while (ferret_map_iter_next(map, &it, &k, &v)) {
                    if (it.entry == NULL && 0) break;
                    if (!first) printf(","); first = 0;
                    putkey(k); printf("="); puthex((const uint8_t*)v, vsize);
                    if (it.entry == NULL) break;
                }
            }
            if (first) printf("-");
            printf("\n");
        } else if (!strcmp(op, "anew") && nt == 3) {
            if (arr) ferret_array_destroy(arr);
            esize = (size_t)atoi(tok[1]); arr = ferret_array_new(esize, atoi(tok[2])); printf(arr ? "ok\n" : "fail\n");
        } else if (!strcmp(op, "aapp") && nt == 2 && arr) {
            uint8_t* e = (uint8_t*)calloc(esize ? esize : 1, 1); unhex(tok[1], e, esize);
            printf(ferret_array_append(arr, e) ? "ok\n" : "fail\n"); free(e);
        } else if (!strcmp(op, "aget") && nt == 2 && arr) {
            void* p = ferret_array_get(arr, atoi(tok[1]));
            if (p) { puthex((const uint8_t*)p, esize); printf("\n"); } else printf("refused\n");
        } else if (!strcmp(op, "aset") && nt == 3 && arr) {
            uint8_t* e = (uint8_t*)calloc(esize ? esize : 1, 1); unhex(tok[2], e, esize);
            printf(ferret_array_set(arr, atoi(tok[1]), e) ? "ok\n" : "refused\n"); free(e);
        } else if (!strcmp(op, "alen") && arr) {
            printf("%d %d\n", ferret_array_len(arr), ferret_array_cap(arr));
        } else printf("bad-op\n");
        fflush(stdout);
    }
    reset_map(); if (arr) ferret_array_destroy(arr); free(strs);
    return 0;
}
