"""C03 — statically ill-typed programs are rejected.
Theorems: Props/C03.lean (no implicit conversion where a value would be lost, over the regenerated compatibility table; a
recorded error prevents the artefact and makes the exit status non-zero).  The type checker itself (~6 kLoC) is not modelled.
Observation: the full product  (ill-typed construct of each rule class of the property) x (syntactic position)  is compiled:
every injected program must be rejected (exit != 0, >= 1 error, no artefact) and every position filled with a well-typed
construct must be accepted (so the harness cannot be right for the wrong reason)."""
import os, sys, json, hashlib
sys.path.insert(0, os.path.join(os.path.dirname(os.path.abspath(__file__)), "..", "lib"))
from common import *
from ferretrun import *

PID = "C03"

PRE = '''import "std/io";
type P struct { .X: i32, .Y: i64 };
fn two(a: i32, b: i32) -> i32 { return a + b; }
fn fails() -> str ! i32 { return "e"!; }
fn takeP(p: P) -> i32 { return p.X; }
fn (p: &'P) Bump(d: i32) { p.X = p.X + d; }
type Q struct { .X: i32, .Y: i64 };
fn fill64(slot: &'i64) -> i32 { return 1; }
fn show64(v: &i64) -> i32 { return 1; }
fn showF(v: &f64) -> i32 { return 1; }
fn takeRefP(p: &P) -> i32 { return p.X; }
type W struct { .X: i32, .Y: i64, .M: []i32 };
'''
PARAMS = "v32: i32, v64: i64, f: f64, s: str, opt: i32?, flag: bool"
LOCALS = "    let qq: Q = { .X = 1, .Y = 2 } as Q;\n    let lw: i64 = 5;\n    let loc: i32 = 0;\n    let pp: P = { .X = 1, .Y = 2 } as P;\n    let dr: []i32 = [1, 2, 3];\n    let lo: i32 = 0;\n    let hi: i32 = 2;\n"

# expressions that are ill-typed whatever surrounds them: (rule class, text)
BAD_EXPR = [
    ("arith-mixed-types", "v32 + v64"), ("arith-mixed-types", "v64 * v32"), ("arith-mixed-types", "v32 - f"), ("arith-mixed-types", "(v32 + 1) + v64"),
    ("non-bool-logical-operand", "two(1, 2) && flag"), ("non-bool-logical-operand", "!v32"),
    ("arg-count", "two(1)"), ("arg-count", "two(1, 2, 3)"), ("arg-count", "two()"),
    ("arg-type", "two(s, 1)"), ("arg-type", "two(1, v64)"), ("arg-type", "two(f, 1)"), ("arg-type", "takeP(v32)"),
    # references: the referent types must match exactly (no conversion through a reference), mutability cannot be gained
    ("arg-type", "fill64(&'loc)"), ("arg-type", "show64(&loc)"), ("arg-type", "showF(&loc)"), ("arg-type", "takeRefP(&qq)"), ("arg-type", "fill64(&lw)"), ("arg-type", "show64(lw)"),
    ("undefined-name", "nope"), ("undefined-name", "nopeFn(1)"), ("undefined-name", "pp.Nope"), ("undefined-name", "nomod::X"),
    ("optional-as-value", "two(opt, 1)"), ("optional-as-value", "opt + 1"),
    ("call-non-function", "v32(1)"), ("call-non-function", "pp(1)"),
    ("unhandled-result", "two(fails(), 1)"), ("unhandled-result", "fails() + 1"),
    ("struct-field", "takeP({ .X = 1 } as P)"), ("struct-field", "takeP({ .X = 1, .Y = 2, .Z = 3 } as P)"), ("struct-field", "takeP({ .X = s, .Y = 2 } as P)"),
]
# expressions that are ill-typed only where an i32 is required
BAD_EXPR_I32 = [("implicit-narrowing", "v64"), ("float-to-int", "f"), ("float-to-int", "f + 1.5"), ("wrong-type", "s"), ("wrong-type", "flag"), ("optional-as-value", "opt"), ("unhandled-result", "fails()")]
GOOD_EXPR = ["v32", "two(1, 2)", "loc + 1", "(v64 as i32)", "takeP(pp)"]
# statements: (rule class, text)
BAD_STMT = [
    ("non-bool-condition", "if v32 { }"), ("non-bool-condition", "while v32 { break; }"), ("non-bool-condition", "if s { }"), ("non-bool-condition", "if opt { }"),
    ("non-bool-logical-operand", "let bb: bool = v32 && flag;"), ("non-bool-logical-operand", "let bb: bool = flag || v64;"), ("non-bool-logical-operand", "let bb: bool = !v32;"),
    ("redeclared-name", "let dup1: i32 = 1; let dup1: i32 = 2;"), ("redeclared-name", "let cq := fn(x: i32) -> i32 { let x: i32 = 5; return x; };"),
    ("redeclared-name", "let cr := fn(x: i32, x: i32) -> i32 { return x; };"), ("redeclared-name", "let cs := fn(y: i32) { let cz := fn(z: i32) -> i32 { let z: i32 = 1; return z; }; };"),
    ("redeclared-name", "let rr: i32 = fails() catch ee { let ee: i32 = 1; return 0; } 0;"), ("redeclared-name", "let dup2: i32 = 1; const dup2: i32 = 2;"),
    ("too-many-initialisers", "let ta: [2]i32 = [1, 2, 3];"), ("too-many-initialisers", "let tb: [1]i32 = [1, 2];"),
    ("unhandled-result", "fails();"), ("unhandled-result", "let ur: i32 = fails();"),
    ("assign-mismatch", "loc = s;"), ("assign-mismatch", "loc = v64;"), ("assign-mismatch", "pp.X = v64;"), ("assign-mismatch", "dr[0] = s;"), ("assign-mismatch", "loc += v64;"),
    ("struct-field", "pp.Nope = 1;"), ("struct-field", "let sq: P = { .X = 1 } as P;"), ("struct-field", "let sr: P = { .X = 1, .Y = 2, .W = 3 } as P;"), ("struct-field", "let sd: P = { .X = 1, .X = s, .Y = 2 } as P;"), ("struct-field", "let se: P = { .X = 1, .Y = 2, .X = 3 } as P;"),
    ("undefined-name", "nope = 1;"), ("undefined-name", "nopeFn();"), ("arg-count", "pp.Bump();"), ("arg-type", "pp.Bump(s);"), ("call-non-function", "loc();"),
]
# statements whose ill-typedness depends on the enclosing function's result type: (rule, text, needs)
BAD_RET = [("wrong-return-value", "return s;", "i32"), ("missing-return-value", "return;", "i32"), ("wrong-return-value", "return v64;", "i32"),
           ("value-from-void", "return v32;", "void"), ("error-return-from-non-result", 'return "e"!;', "i32"), ("error-return-from-non-result", 'return "e"!;', "void")]
GOOD_STMT = ["loc = 1;", "let fine: i32 = v32 + 1;", "pp.Bump(2);"]

# expression positions: template with {E}; the position's own function result type is i32
EXPR_CTX = {
    "let-init": "let zz: i32 = {E};", "assign": "loc = {E};", "compound-assign": "loc += {E};", "call-arg": "two(1, {E});", "nested-call-arg": "two(two({E}, 1), 2);",
    "method-arg": "pp.Bump({E});", "struct-field-init": "let q: P = {{ .X = {E}, .Y = 2 }} as P;", "fixed-array-elem": "let ar: [2]i32 = [1, {E}];", "dyn-array-elem": "let dq: []i32 = [{E}];",
    "return-value": "if flag {{ return {E}; }}", "binary-operand": "let zz: i32 = loc + {E};", "closure-return": "let cl := fn() -> i32 {{ return {E}; }};", "coalesce-default": "let zz: i32 = opt ?? {E};",
    "catch-default": "let zz: i32 = fails() catch {E};", "elem-assign": "dr[0] = {E};", "field-assign": "pp.X = {E};", "append-arg": "append(&'dr, {E});",
    # positions that do not force a type on the expression: only its own errors count there
    "compare-operand": "if {E} > 0 {{ }}", "dyn-index": "let zz: i32 = dr[{E}];", "match-scrutinee": "match {E} {{ 1 => {{ }} _ => {{ }} }}", "parenthesised-cast": "let zz: i64 = ({E}) as i64;", "println-arg": "io::Println({E});",
}
# positions whose target goes through the receiver of a method (hosts: value receiver — the write only draws a warning — and `&'` receiver)
RECV_CTX = {"recv-field-assign": "self.X = {E};", "recv-field-compound": "self.X += {E};", "recv-append": "append(&'self.M, {E});", "recv-elem-assign": "self.M[0] = {E};",
            "recv-field-assign-in-if": "if flag {{ self.X = {E}; }}", "recv-field-assign-in-closure": "let cl := fn() {{ self.X = {E}; }};"}
UNTYPED_CTX = {"compare-operand", "dyn-index", "match-scrutinee", "parenthesised-cast", "println-arg"}
# statement positions: template with {S}; "ret" = result type of the function the statement ends up in
STMT_CTX = {
    "body": ("{S}", "i32"), "if-then": ("if flag {{ {S} }}", "i32"), "else": ("if flag {{ }} else {{ {S} }}", "i32"), "else-if": ("if flag {{ }} else if v32 > 0 {{ {S} }}", "i32"),
    "while": ("while flag {{ {S} break; }}", "i32"), "for-range": ("for i in lo..hi {{ {S} }}", "i32"), "for-array": ("for i, e in dr {{ {S} }}", "i32"),
    "match-arm": ("match v32 {{ 1 => {{ {S} }} _ => {{ }} }}", "i32"), "match-default": ("match v32 {{ 1 => {{ }} _ => {{ {S} }} }}", "i32"),
    "void-closure": ("let cl := fn() {{ {S} }}; cl();", "void"), "value-closure": ("let cl := fn() -> i32 {{ {S} return 1; }};", "i32"), "nested-block": ("{{ {{ {S} }} }}", "i32"),
    "catch-handler": ("let r: i32 = fails() catch e {{ {S} return 0; }} 0;", "i32"), "closure-in-loop": ("while flag {{ let cl := fn() {{ {S} }}; cl(); break; }}", "void"),
}


def host(stmt_text, kind):
    """the program around one statement text; kind: function / method / void function"""
    if kind in ("value-recv", "mut-recv"):
        fn = "fn (self: %s) host(%s) -> i32 {\n%s    %s\n    return 0;\n}\n" % ("W" if kind == "value-recv" else "&'W", PARAMS, LOCALS, stmt_text)
    elif kind == "method":
        fn = "fn (self: &'P) host(%s) -> i32 {\n%s    %s\n    return 0;\n}\n" % (PARAMS, LOCALS, stmt_text)
    elif kind == "void-fn":
        fn = "fn host(%s) {\n%s    %s\n}\n" % (PARAMS, LOCALS, stmt_text)
    else:
        fn = "fn host(%s) -> i32 {\n%s    %s\n    return 0;\n}\n" % (PARAMS, LOCALS, stmt_text)
    return PRE + fn + "fn main() { }\n"


def main():
    tier = os.environ.get("VERIF_TIER", "quick")
    rep = Report(PID)
    rng = SplitMix64(seed() * 2750159 + 3)
    try:
        hook = build_gohook(); build_ferret(); fvdriver()
        import c11
        c11.regen()
    except BuildError as e:
        log(str(e))
        rep.fail("tie:build", "compiler / hook / driver no longer builds (tie broken)", {"kind": "broken-obligation", "detail": str(e)[-2000:]}, no_input=True)
        write_evidence(PID, "other", {"explanation": "build failed", "obligations": 1, "discharged": 0}, violations=1)
        return rep.finish()
    cases = []          # (key, rule or None, text, expect_reject)
    for cn, tmpl in EXPR_CTX.items():
        for g in GOOD_EXPR:
            cases.append(("good|%s|%s" % (cn, g), None, host(tmpl.format(E=g), "fn"), False))
        for rule, e in BAD_EXPR + ([] if cn in UNTYPED_CTX else BAD_EXPR_I32):
            for hk in (["fn"] if tier == "quick" and rng.below(3) else ["fn", "method"]):
                cases.append(("%s|%s|%s|%s" % (rule, cn, e, hk), rule, host(tmpl.format(E=e), hk), True))
    for cn, tmpl in RECV_CTX.items():
        for hk in ("value-recv", "mut-recv"):
            for g in GOOD_EXPR[:3]:
                cases.append(("good|%s|%s|%s" % (cn, g, hk), None, host(tmpl.format(E=g), hk), False))
            for rule, e in BAD_EXPR_I32 + [x for x in BAD_EXPR if tier != "quick" or rng.below(4) == 0]:
                cases.append(("%s|%s|%s|%s" % (rule, cn, e, hk), rule, host(tmpl.format(E=e), hk), True))
    for cn, (tmpl, ret) in STMT_CTX.items():
        for g in GOOD_STMT:
            cases.append(("good|%s|%s" % (cn, g), None, host(tmpl.format(S=g), "fn"), False))
        for rule, st in BAD_STMT:
            for hk in (["fn"] if tier == "quick" and rng.below(3) else ["fn", "method"]):
                cases.append(("%s|%s|%s|%s" % (rule, cn, st, hk), rule, host(tmpl.format(S=st), hk), True))
        for rule, st, need in BAD_RET:
            if need == ret:
                cases.append(("%s|%s|%s|fn" % (rule, cn, st), rule, host(tmpl.format(S=st), "fn"), True))
    # return rules in a void function body and a method
    for rule, st, need in BAD_RET:
        if need == "void": cases.append(("%s|void-fn-body|%s" % (rule, st), rule, host(st, "void-fn"), True))
        if need == "i32": cases.append(("%s|method-body|%s" % (rule, st), rule, host(st, "method"), True))
    # declaration-level classes
    DECLS = [("redeclared-name", "fn two(a: i32) -> i32 { return a; }\n"), ("redeclared-name", "fn dupp(a: i32, a: i32) -> i32 { return a; }\n"), ("redeclared-name", "type P struct { .Z: i32 };\n"),
             ("redeclared-name", "fn shadow(v: i32) -> i32 { let v: i32 = 2; return v; }\n"), ("redeclared-name", "fn (p: &'P) shadowm(v: i32) -> i32 { let v: i32 = 2; return v; }\n"),
             ("redeclared-name", "fn (p: &'P) shadowr() -> i32 { let p: i32 = 2; return p; }\n"), ("missing-return-value", "fn noret(a: i32) -> i32 { return; }\n"), ("undefined-name", "fn usesT(a: Nope) -> i32 { return 1; }\n"),
             ("undefined-name", "fn retT() -> Nope { return 1; }\n"), ("wrong-return-value", "fn wr() -> i32 { return \"s\"; }\n"), ("error-return-from-non-result", "fn er() -> i32 { return \"e\"!; }\n"),
             ("too-many-initialisers", "const CA: [2]i32 = [1, 2, 3];\n")]
    for rule, d in DECLS:
        cases.append(("%s|declaration|%s" % (rule, d.strip()), rule, PRE + d + "fn main() { }\n", True))
    res = run_many([{"files": {"main.fer": c[2]}, "mode": "check", "timeout": 60} for c in cases])
    # a sample is compiled fully: a rejected program must leave no executable
    full_idx = [i for i, c in enumerate(cases) if c[3] and rng.below(12 if tier == "quick" else 4) == 0]
    full = run_many([{"files": {"main.fer": cases[i][2]}, "mode": "build", "timeout": 60} for i in full_idx])
    st = {"cases": len(cases), "injected": 0, "rejected": 0, "controls": 0, "controls_accepted": 0, "built_fully": len(full_idx), "by_rule": {}}
    for c, r in zip(cases, res):
        key, rule, text, bad = c
        if r.compile_rc not in (0, 1):
            rep.fail("crash:" + key, "compiler crashed (exit %s) on C03 case %s" % (r.compile_rc, key), {"kind": "input", "files": {"main.fer": text}, "observed": strip_ansi(r.compile_out)[-800:]})
            continue
        errs = [d for d in r.diags if d[0] == "error"]
        if not bad:
            st["controls"] += 1
            if r.accepted: st["controls_accepted"] += 1
            else:
                rep.fail("control:" + key, "well-typed control program for position `%s` is rejected: %s" % (key.split("|")[1], [d[2][:80] for d in errs][:2]),
                         {"kind": "input", "files": {"main.fer": text}, "cmd": "ferret -t main.fer", "expected": "accepted", "observed": strip_ansi(r.compile_out)[-500:]})
            continue
        st["injected"] += 1
        br = st["by_rule"].setdefault(rule, {"cases": 0, "rejected": 0})
        br["cases"] += 1
        if r.compile_rc == 1 and errs:
            st["rejected"] += 1; br["rejected"] += 1
        else:
            f = key.split("|")
            rep.fail("accepted:" + key, "ill-typed program is ACCEPTED: rule `%s`, construct `%s` in position `%s`" % (rule, f[2] if len(f) > 2 else "", f[1]),
                     {"kind": "input", "files": {"main.fer": text}, "cmd": "ferret -t main.fer", "expected": "exit 1 with an error diagnostic", "observed": "exit %s, %d errors" % (r.compile_rc, len(errs))})
    for i, r in zip(full_idx, full):
        if r.artifact or r.compile_rc == 0:
            rep.fail("artifact:" + cases[i][0], "ill-typed program `%s`: full compilation exits %s and %s an executable" % (cases[i][0], r.compile_rc, "leaves" if r.artifact else "leaves no"),
                     {"kind": "input", "files": {"main.fer": cases[i][2]}, "cmd": "ferret -o out main.fer"})

    ok, outp = lake_build(["FerretVerif.Props.C03"])
    names = theorem_names("C03")
    axioms, discharged = {}, 0
    if ok:
        axioms, _ = audit_theorems("C03", names)
        for nm in names:
            ax = axioms.get(nm)
            if ax is not None and set(ax) <= ALLOWED_AXIOMS: discharged += 1
            else: rep.fail("axioms:" + nm, "theorem %s missing or depends on unexpected axioms %s" % (nm, ax), {"kind": "broken-obligation", "theorem": nm}, no_input=True)
    else:
        log(outp[-3000:])
        rep.fail("proof:C03", "Props/C03.lean no longer builds against the regenerated compatibility table", {"kind": "broken-obligation", "detail": outp[-3000:]}, no_input=True)
    forb = grep_forbidden()
    if forb:
        rep.fail("audit:forbidden", "forbidden construct in Lean sources: %s" % forb[:3], {"kind": "broken-obligation", "hits": forb[:20]}, no_input=True)
    cov = {
        "explanation": "PARTIAL: the type checker, resolver and collector are not modelled. Kernel-checked: (over the compatibility table regenerated from the current code) no numeric conversion that can lose a value and no float->int conversion is "
                       "implicit, and distinct numeric types are never `identical` (so mixed arithmetic needs a cast); an error recorded by any front phase makes the exit status 1 and prevents the artefact. Executed: every ill-typed construct "
                       "(%d expression forms, %d statement forms, %d return forms, %d declaration forms, covering the %d rule classes of the property) in every syntactic position (%d expression positions, %d statement positions, function / method hosts; targets through a value receiver and a `&'` receiver) "
                       "must be rejected; each position is also compiled with well-typed fillers and must be accepted." % (len(BAD_EXPR), len(BAD_STMT), len(BAD_RET), len(DECLS), len({r for r, _ in BAD_EXPR} | {r for r, _ in BAD_STMT} | {r for r, _, _ in BAD_RET}), len(EXPR_CTX) + len(RECV_CTX), len(STMT_CTX)),
        "obligations": len(names), "discharged": discharged,
        "checker_cmd": "cd /verif/lean && lake build FerretVerif.Props.C03 && #print axioms per theorem",
        "trusted_base": ["Lean 4 kernel", "axioms: " + ", ".join(sorted({a for v in axioms.values() if v for a in v})), "gohook extraction of the compatibility table", "the templates (each ill-typed construct is ill-typed by the language rules the property lists)", "diagnostic parser"],
        "theorems": [{"name": nm, "axioms": axioms.get(nm)} for nm in names],
        "evaluations": len(cases) + len(full_idx), "distinct_nontrivial": st["injected"],
        "rule": "product of ill-typed constructs x positions (thorough: x {function, method} hosts everywhere; quick: method hosts for a seeded third); controls = positions filled with well-typed constructs; non-trivial = injected programs",
        "exhaustive": tier != "quick",
        "samples": [c[0] for c in cases[5:: max(1, len(cases) // 8)]][:8], "stats": st,
    }
    write_evidence(PID, "other", cov, assumptions=["an ill-typed operand inside a position whose own typing is also violated may be reported under either rule: any error diagnostic counts as rejection"], violations=len(rep.violations))
    return rep.finish()


if __name__ == "__main__":
    sys.exit(main())
