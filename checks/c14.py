"""C14 — compilation is deterministic under every schedule.
Theorems: Props/C14.lean (sortDiagnostics = stable sort by (file, line) on located diagnostics => arrival-order invariance;
witnesses for same-key and unlabeled diagnostics; literal-counter names).  Ties: `diag-sort` correspondence of the model with
bag.go on generated diagnostic lists (all permutations of small lists included).  Observation: a set of multi-module projects
(diagnostics in several modules, closures / struct / enum / interface literals in several modules, interfaces and maps, missing
and cyclic imports, diamonds) is compiled repeatedly with the real CLI built with seed-driven delay gates in parse.go
(FERRET_VERIF_SCHED) under GOMAXPROCS 1/2/4/16, for both targets; exit status, stderr and every generated file must be
identical across all runs of a project."""
import os, sys, json, hashlib, itertools, subprocess, shutil
sys.path.insert(0, os.path.join(os.path.dirname(os.path.abspath(__file__)), "..", "lib"))
from common import *

PID = "C14"

IO = 'import "std/io";\n'
PROJECTS = {
    # diagnostics in several concurrently parsed modules (type errors + parse errors), different files
    "errors-in-siblings": dict({"main.fer": IO + "".join('import "app/m%d";\n' % i for i in range(6)) + "fn main() { " + " ".join("m%d::F%d();" % (i, i) for i in range(6)) + " }\n"},
                               **{"m%d.fer" % i: 'fn F%d() {\n    let x: i32 = "s%d";\n%s}\n' % (i, i, "    let y: bool = 1;\n" * (i % 3)) for i in range(6)}),
    "parse-errors-in-siblings": dict({"main.fer": "".join('import "app/p%d";\n' % i for i in range(5)) + "fn main() { }\n"},
                                     **{"p%d.fer" % i: "fn G%d( {\n let = ;\n}\nfn H%d() -> { }\n" % (i, i) for i in range(5)}),
    # literals named from process-global counters, in several modules
    "closures-in-two-modules": {"main.fer": IO + 'import "app/a";\nimport "app/b";\nfn main() {\n    let f := fn(x: i32) -> i32 { return x + 1; };\n    io::Println(f(1));\n    io::Println(a::A());\n    io::Println(b::B());\n}\n',
                                "a.fer": "fn A() -> i32 {\n    let g := fn(x: i32) -> i32 { return x * 2; };\n    let h := fn(x: i32) -> i32 { return x * 3; };\n    return g(2) + h(3);\n}\n",
                                "b.fer": "fn B() -> i32 {\n    let g := fn(x: i32) -> i32 { return x - 2; };\n    return g(9);\n}\n"},
    "closures-one-module": {"main.fer": IO + 'import "app/a";\nfn main() {\n    io::Println(a::A());\n}\n',
                            "a.fer": "fn A() -> i32 {\n    let u: i32 = 5;\n    let v: i32 = 7;\n    let g := fn(x: i32) -> i32 { return x * u + v; };\n    let h := fn(x: i32) -> i32 { return x - v; };\n    return g(2) + h(3);\n}\n"},
    "type-literals-in-modules": {"main.fer": IO + 'import "app/s";\nimport "app/t";\nfn main() {\n    io::Println(s::Mk());\n    io::Println(t::Mk());\n}\n',
                                 "s.fer": "type P struct { .X: i32, .Y: i64 };\ntype E enum { A, B, C };\nfn Mk() -> i32 {\n    let p: P = { .X = 1, .Y = 2 } as P;\n    let e := E::B;\n    match e { E::A => { return 1; } E::B => { return p.X + 1; } _ => { return 3; } }\n}\n",
                                 "t.fer": "type Q struct { .A: i64, .B: i32 };\ntype F enum { U, V };\nfn Mk() -> i32 {\n    let q: Q = { .A = 1, .B = 5 } as Q;\n    let e := F::V;\n    match e { F::U => { return 1; } _ => { return q.B; } }\n}\n"},
    # interfaces / type ids / maps / strings: Go maps iterated while emitting data
    "interfaces-and-maps": {"main.fer": IO + 'import "app/shapes";\nfn main() {\n    let m := {"a" => 1, "b" => 2, "c" => 3, "d" => 4} as map[str]i32;\n    io::Println(len(m));\n    io::Println(shapes::Total());\n    io::Println("x");\n    io::Println("y");\n    io::Println("z");\n}\n',
                            "shapes.fer": "type Shape interface { area() -> i32 };\ntype Sq struct { .S: i32 };\ntype Rc struct { .W: i32, .H: i32 };\ntype Tr struct { .B: i32, .H: i32 };\nfn (s: Sq) area() -> i32 { return s.S * s.S; }\nfn (r: Rc) area() -> i32 { return r.W * r.H; }\nfn (t: Tr) area() -> i32 { return t.B * t.H / 2; }\n"
                                          "fn one(s: Shape) -> i32 { return s.area(); }\nfn Total() -> i32 {\n    let a: Sq = { .S = 2 } as Sq;\n    let b: Rc = { .W = 2, .H = 3 } as Rc;\n    let c: Tr = { .B = 4, .H = 3 } as Tr;\n    return one(a) + one(b) + one(c);\n}\n"},
    # import errors whose reporter is whichever importer got there first
    "missing-module-two-importers": {"main.fer": 'import "app/x";\nimport "app/y";\nfn main() { x::F(); y::G(); }\n', "x.fer": 'import "app/nothere";\nfn F() { }\n', "y.fer": 'import "app/nothere";\nfn G() { }\n'},
    "cycle-of-three": {"main.fer": 'import "app/a";\nfn main() { a::F(); }\n', "a.fer": 'import "app/b";\nfn F() { b::G(); }\n', "b.fer": 'import "app/c";\nfn G() { c::H(); }\n', "c.fer": 'import "app/a";\nfn H() { a::F(); }\n'},
    # clean projects: diamond with shared leaf, many independent roots
    "diamond": {"main.fer": IO + 'import "app/l";\nimport "app/r";\nfn main() { io::Println(l::L() + r::R()); }\n', "l.fer": 'import "app/base";\nfn L() -> i32 { return base::K + 1; }\n',
                "r.fer": 'import "app/base";\nfn R() -> i32 { return base::K + 2; }\n', "base.fer": "const K: i32 = 40;\n"},
    "many-roots": dict({"main.fer": IO + "".join('import "app/r%d";\n' % i for i in range(8)) + "fn main() { io::Println(" + " + ".join("r%d::V()" % i for i in range(8)) + "); }\n"},
                       **{"r%d.fer" % i: "fn V() -> i32 { return %d; }\n" % i for i in range(8)}),
    "warnings-in-siblings": dict({"main.fer": IO + "".join('import "app/w%d";\n' % i for i in range(4)) + "fn main() { " + " ".join("w%d::F();" % i for i in range(4)) + " }\n"},
                                 **{"w%d.fer" % i: "type T struct { .V: i32 };\nfn (t: T) bump() { t.V = t.V + 1; }\nfn F() {\n    let t: T = { .V = %d } as T;\n    t.bump();\n    if true { }\n}\n" % i for i in range(4)}),
}
_ctr = itertools.count()


def compile_once(ferret, libs, files, target, sched, procs):
    base = os.path.join(scratch(), "det", "w%d" % next(_ctr))
    d = os.path.join(base, "app")
    os.makedirs(d)
    for rel, text in files.items():
        with open(os.path.join(d, rel), "w") as f:
            f.write(text)
    outp = os.path.join(d, "out.wasm" if target == "wasm" else "out.bin")
    cmd = [ferret, "-keep-gen", "-o", outp] + (["-target", "wasm"] if target == "wasm" else []) + ["main.fer"]
    env = dict(os.environ)
    env.update(ferret_env(libs))
    env["GOMAXPROCS"] = str(procs)
    if sched is not None: env["FERRET_VERIF_SCHED"] = str(sched)
    try:
        p = subprocess.run(cmd, cwd=d, env=env, stdout=subprocess.PIPE, stderr=subprocess.PIPE, timeout=120)
        rc, text = p.returncode, strip_ansi((p.stdout + p.stderr).decode("utf-8", "replace")).replace(base, "<dir>")
    except subprocess.TimeoutExpired:
        rc, text = -999, "timeout"
    gen = {}
    gd = os.path.join(d, "gen")
    if os.path.isdir(gd):
        for f in sorted(os.listdir(gd)):
            if f.endswith(".ssa"):
                gen[f] = open(os.path.join(gd, f), "rb").read().replace(base.encode(), b"<dir>")
    if target == "wasm" and os.path.exists(outp):
        gen["out.wasm"] = open(outp, "rb").read()
    shutil.rmtree(base, ignore_errors=True)
    return {"rc": rc, "stderr": text, "gen": gen}


def main():
    tier = os.environ.get("VERIF_TIER", "quick")
    rep = Report(PID)
    stats = {}
    hook = None
    try:
        try:
            hook = build_gohook()
        except BuildError as e:
            # the export wrapper no longer fits the code (e.g. sortDiagnostics changed its signature): the function-level tie is
            # broken, the whole-compiler observation below still runs and may exhibit a failing input
            log(str(e)[-1500:])
            rep.fail("tie:hook", "the diag-sort hook no longer builds against the current tree (function-level tie broken)", {"kind": "broken-obligation", "correspondence": "gohook diag-sort", "detail": str(e)[-1500:]}, no_input=True)
        ferret, libs, gated = build_ferret_gated()
        fvdriver()
    except BuildError as e:
        log(str(e))
        rep.fail("tie:build", "compiler / hook / driver no longer builds (tie broken)", {"kind": "broken-obligation", "detail": str(e)[-2000:]}, no_input=True)
        write_evidence(PID, "other", {"explanation": "build failed", "obligations": 1, "discharged": 0}, violations=1)
        return rep.finish()
    rng = SplitMix64(seed() * 15485863 + 14)

    # ---- sortDiagnostics: model vs code
    def dg(i, located):
        sev = rng.choice("ewih")
        if located: return "%s:1:0:%s:%d:%d:%d" % (sev, rng.choice(["a.fer", "b.fer", "ab.fer", "lib/z.fer", "b"]), rng.below(4), rng.below(9), i)
        r = rng.below(3)
        return "%s:%d:%d:%s:%d:%d:%d" % (sev, 0 if r == 0 else 1, 1 if r == 1 else 0, rng.choice(["a.fer", "b.fer", "-"]), rng.below(4), rng.below(9), i)
    cases = []
    for _ in range(300 if tier == "quick" else 3000):
        n = rng.below(21)
        cases.append(" ".join(dg(i, rng.below(5) != 0) for i in range(n)))
    for _ in range(60 if tier == "quick" else 600):            # long located lists (Go switches to block insertion + symMerge)
        n = 21 + rng.below(120)
        cases.append(" ".join(dg(i, True) for i in range(n)))
    base3 = ["e:1:0:b.fer:2:1:0", "e:1:0:a.fer:2:1:1", "e:1:0:a.fer:2:7:2", "w:0:0:-:0:0:3", "e:1:1:-:0:0:4"]
    for k in (3, 4, 5):                                         # all arrival orders of small lists incl. unlabeled / nil-location entries
        for perm in itertools.permutations(base3[:k]):
            cases.append(" ".join(perm))
    inp = "".join(c + "\n" for c in cases)
    if hook is None: cases = []
    go = run([hook, "diag-sort"], input=inp, timeout=600).stdout.split("\n") if hook else []
    lean = run_driver(["diag-sort"], inp).split("\n")
    sort_diffs = [{"input": c[:300], "go": g[:200], "model": l[:200]} for c, g, l in zip(cases, go, lean) if g != l]
    # property-level oracle on located lists: two arrival orders that agree per key must be emitted identically
    inv_cases = 0
    pairs_in = []
    for _ in range(150 if tier == "quick" else 1500):
        n = 2 + rng.below(14)
        ds = [dg(i, True) for i in range(n)]
        # a second arrival order: random merge of the per-key subsequences
        keyof = lambda t: (t.split(":")[3], t.split(":")[4])
        groups = {}
        for t in ds: groups.setdefault(keyof(t), []).append(t)
        gl = [list(v) for v in groups.values()]
        other = []
        while gl:
            g = rng.choice(gl)
            other.append(g.pop(0))
            if not g: gl.remove(g)
        pairs_in += [" ".join(ds), " ".join(other)]
    if hook is None: pairs_in = []
    pg = run([hook, "diag-sort"], input="".join(c + "\n" for c in pairs_in), timeout=600).stdout.split("\n") if hook else []
    for i in range(0, len(pairs_in), 2):
        inv_cases += 1
        if pg[i] != pg[i + 1]:
            rep.fail("sortinv:" + hashlib.sha1(pairs_in[i].encode()).hexdigest()[:12], "sortDiagnostics emits two arrival orders of the same located diagnostics (same order within every file:line) differently",
                     {"kind": "input", "ops": [pairs_in[i], pairs_in[i + 1]], "cmd": "gohook diag-sort", "observed": [pg[i], pg[i + 1]]})
    stats["diag_sort"] = {"model_vs_code_cases": len(cases), "diffs": len(sort_diffs), "arrival_pairs": inv_cases}

    # ---- whole compiler: repeated compilations under different schedules
    scheds = list(range(16 if tier == "quick" else 64))
    procs = [1, 2, 4, 16]
    jobs = []
    for name, files in PROJECTS.items():
        for target in ("native", "wasm"):
            for i, s in enumerate(scheds):
                jobs.append((name, target, s if gated else None, procs[i % len(procs)]))
            jobs.append((name, target, None, 16)); jobs.append((name, target, None, 1))
    from concurrent.futures import ThreadPoolExecutor
    with ThreadPoolExecutor(max_workers=max(4, NPROC // 2)) as ex:
        res = list(ex.map(lambda j: compile_once(ferret, libs, PROJECTS[j[0]], j[1], j[2], j[3]), jobs))
    by = {}
    for j, r in zip(jobs, res):
        by.setdefault((j[0], j[1]), []).append((j, r))
    distinct = {}
    for (name, target), runs in by.items():
        ref_j, ref = runs[0]
        kinds = set()
        for j, r in runs[1:]:
            what = None
            if r["rc"] != ref["rc"]: what = "exit status %s vs %s" % (ref["rc"], r["rc"])
            elif r["stderr"] != ref["stderr"]: what = "diagnostics text/order"
            elif sorted(r["gen"]) != sorted(ref["gen"]): what = "set of generated files %s vs %s" % (sorted(ref["gen"]), sorted(r["gen"]))
            else:
                for f in ref["gen"]:
                    if ref["gen"][f] != r["gen"][f]:
                        what = "generated code %s" % f; break
            if what and what.split(" ")[0] + what.split(" ")[-1] not in kinds:
                kinds.add(what.split(" ")[0] + what.split(" ")[-1])
                a, b = ref, r
                detail = ""
                if what.startswith("diagnostics"):
                    la, lb = a["stderr"].split("\n"), b["stderr"].split("\n")
                    k = next((i for i in range(min(len(la), len(lb))) if la[i] != lb[i]), 0)
                    detail = " | run A line %d: %s | run B: %s" % (k, la[k][:100] if k < len(la) else "", lb[k][:100] if k < len(lb) else "")
                elif what.startswith("generated code"):
                    f = what.split(" ")[-1]
                    la, lb = a["gen"][f].split(b"\n"), b["gen"][f].split(b"\n")
                    k = next((i for i in range(min(len(la), len(lb))) if la[i] != lb[i]), 0)
                    detail = " | run A line %d: %r | run B: %r" % (k, la[k][:80] if k < len(la) else b"", lb[k][:80] if k < len(lb) else b"")
                rep.fail("nondet:%s:%s:%s" % (name, target, what.split(" ")[0]), "project `%s` (%s): two compilations of the same sources differ in %s (schedule %s/GOMAXPROCS %s vs schedule %s/GOMAXPROCS %s)%s" %
                         (name, target, what, ref_j[2], ref_j[3], j[2], j[3], detail),
                         {"kind": "input", "files": PROJECTS[name], "target": target, "schedules": [[ref_j[2], ref_j[3]], [j[2], j[3]]],
                          "cmd": "FERRET_VERIF_SCHED=<s> GOMAXPROCS=<n> ferret_gated -keep-gen -o out main.fer (twice)", "difference": what})
        distinct["%s:%s" % (name, target)] = len({(r["rc"], r["stderr"], tuple(sorted((k, hashlib.sha1(v).hexdigest()) for k, v in r["gen"].items()))) for _, r in runs})
    stats["compiler"] = {"projects": len(PROJECTS), "compilations": len(jobs), "schedule_control": "gates" if gated else "fallback (no gates: anchors of parse.go not found)", "distinct_outcomes_per_project": distinct}

    ok, outp = lake_build(["FerretVerif.Props.C14"])
    names = theorem_names("C14")
    axioms, discharged = {}, 0
    if ok:
        axioms, _ = audit_theorems("C14", names)
        for nm in names:
            ax = axioms.get(nm)
            if ax is not None and set(ax) <= ALLOWED_AXIOMS: discharged += 1
            else: rep.fail("axioms:" + nm, "theorem %s missing or depends on unexpected axioms %s" % (nm, ax), {"kind": "broken-obligation", "theorem": nm}, no_input=True)
    else:
        log(outp[-3000:])
        rep.fail("proof:C14", "Props/C14.lean no longer builds", {"kind": "broken-obligation", "detail": outp[-3000:]}, no_input=True)
    forb = grep_forbidden()
    if forb:
        rep.fail("audit:forbidden", "forbidden construct in Lean sources: %s" % forb[:3], {"kind": "broken-obligation", "hits": forb[:20]}, no_input=True)
    if sort_diffs and not any(v[0].startswith("sortinv") for v in rep.violations):
        rep.fail("tie:diagsort", "Model/Diag.lean sortDiags and bag.go sortDiagnostics disagree on %d of %d lists (first: %s)" % (len(sort_diffs), len(cases), sort_diffs[0]["input"][:120]),
                 {"kind": "broken-obligation", "correspondence": "fvdriver diag-sort vs gohook diag-sort", "diffs": sort_diffs[:10]}, no_input=True)
    if not gated:
        stats["compiler"]["note"] = "ungated runs only vary GOMAXPROCS and repetition"
    cov = {
        "explanation": "PARTIAL. Kernel-checked (Lean 4): sortDiagnostics sorts located diagnostics by (file, line), is stable inside a key and therefore emits any two arrival orders that agree inside every key identically (corollary: two goroutines "
                       "reporting into different files); witnesses show both hypotheses are needed; literal ids are schedule-independent only for a single drawing module. Tied to bag.go by the diag-sort correspondence. Byte equality of generated "
                       "code and diagnostics text is OBSERVED: every project is compiled under seed-driven delay gates spliced into the current parse.go and GOMAXPROCS 1/2/4/16 and all outcomes must coincide.",
        "obligations": len(names), "discharged": discharged,
        "checker_cmd": "cd /verif/lean && lake build FerretVerif.Props.C14 && #print axioms per theorem",
        "trusted_base": ["Lean 4 kernel", "axioms: " + ", ".join(sorted({a for v in axioms.values() if v for a in v})), "gohook overlay (diag-sort)", "gate splice: textual anchors in parse.go + harness/gate_pipeline.go (delays only)",
                         "file names mapped to numbers order-isomorphically by the driver"],
        "theorems": [{"name": nm, "axioms": axioms.get(nm)} for nm in names],
        "evaluations": len(cases) + inv_cases + len(jobs), "distinct_nontrivial": len(PROJECTS) * 2,
        "rule": "diag-sort: seeded lists of 0..20 diagnostics (labelled / unlabelled / nil location), located lists of 21..140, all permutations of 3..5-element lists; arrival pairs: random merges of the per-key subsequences; compiler: %d projects x 2 targets x "
                "%d gate schedules (cycled over GOMAXPROCS 1,2,4,16) + 2 ungated runs; non-trivial = (project, target) groups compared" % (len(PROJECTS), len(scheds)),
        "samples": list(PROJECTS)[:6], "model_vs_code_diffs": sort_diffs[:5], "stats": stats,
    }
    write_evidence(PID, "other", cov, assumptions=["schedules are varied (delays at module-parse entry, before lexing, before parsing, before dependency registration; GOMAXPROCS), not exhaustively enumerated",
                                                     "Go randomises map iteration per run; repetition is what exposes unsorted map ranges"], violations=len(rep.violations))
    if any(not v[3] for v in rep.violations):
        rep.violations = [v for v in rep.violations if not (v[3] and v[0].startswith("tie:"))] + [v for v in rep.violations if v[3] and v[0].startswith("tie:")]
    return rep.finish()


if __name__ == "__main__":
    sys.exit(main())
