"""C07 — references obey aliasing-xor-mutation and never outlive their referent.
Theorems: Props/C07.lean over Model/Borrow.lean (path overlap laws; the live loan set of every accepted run satisfies
aliasing-xor-mutation; accepted accesses respect the live loans; a loan lives exactly until the last use of its reference).
Tie: generated straight-line event sequences (borrows into reference variables, uses, reads, writes, temporary borrows for
calls, over whole variables, fields, nested fields and array elements) rendered as Ferret programs; the real borrow checker's
verdict is compared with the model, which IS the property on this fragment; accepted programs with a write through a mutable
reference are executed (write-through visible through the referent and vice versa).  Fixed programs cover the return-lifetime
rule, nested blocks, branches, loops and methods."""
import os, sys, json, hashlib
sys.path.insert(0, os.path.join(os.path.dirname(os.path.abspath(__file__)), "..", "lib"))
from common import *
from ferretrun import *

PID = "C07"
PRE = '''import "std/io";
type In struct { .C: i32, .D: i32 };
type P struct { .A: i32, .B: i32, .In: In };
fn mkIn() -> In { return { .C = 30, .D = 40 } as In; }
fn mkP() -> P { return { .A = 10, .B = 20, .In = mkIn() } as P; }
fn peek(r: &i32) -> i32 { return 1; }
fn poke(r: &'i32) { }
fn (p: &'P) TouchP() { }
fn (p: &P) PeekP() -> i32 { return 1; }
fn (p: &'In) TouchIn() { }
fn (p: &In) PeekIn() -> i32 { return 1; }
'''
# places: (source text, base id, model path, type, kind)
PLACES = [("y", 0, "-", "i32"), ("x", 1, "-", "P"), ("x.A", 1, "0", "i32"), ("x.B", 1, "1", "i32"), ("x.In", 1, "2", "In"), ("x.In.C", 1, "2.0", "i32"), ("x.In.D", 1, "2.1", "i32"),
          ("q[0]", 2, "i", "i32"), ("q[1]", 2, "i", "i32"), ("q", 2, "-", "[2]i32"), ("z", 3, "-", "i32")]
READ_OF = {"i32": "io::Println(%s);", "P": "let c%d: P = %s;", "In": "let c%d: In = %s;", "[2]i32": "let c%d: [2]i32 = %s;"}
WRITE_OF = {"i32": "%s = %d;", "P": "%s = mkP();", "In": "%s = mkIn();", "[2]i32": "%s = [5, 6];"}
USE_OF = {"i32": "io::Println(r%d);", "P": "io::Println(r%d.A);", "In": "io::Println(r%d.C);", "[2]i32": "io::Println(r%d[0]);"}


def gen_events(rng):
    """one event sequence: (model tokens, source lines, meta)"""
    nref = 1 + rng.below(3)
    focus = rng.choice([0, 1, 1, 1, 2])                 # most sequences work on one base: conflicts need a shared base
    pool = [i for i, p in enumerate(PLACES) if p[1] == focus] + ([rng.below(len(PLACES))] if rng.below(2) else [])
    toks, lines, refs, loan_of = [], [], {}, {}
    n = 3 + rng.below(6)
    k = 0
    for step in range(n):
        r = rng.below(10)
        pi = rng.choice(pool)
        src, base, path, ty = PLACES[pi]
        k += 1
        if r < 3 and len(refs) < nref:
            rid = len(refs)
            m = rng.below(2) == 0
            refs[rid] = (ty, m)
            toks.append("B%d:%d:%s:%s" % (rid, base, path, "m" if m else "s"))
            loan_of[rid] = "%d:%s:%s" % (base, path, "m" if m else "s")
            lines.append("let r%d: %s%s = %s%s;" % (rid, "&'" if m else "&", ty, "&'" if m else "&", src))
        elif r < 4 and refs and len(refs) < nref + 1 and any(not m_ for _, m_ in refs.values()):
            # copy of a shared reference into another reference variable: a second loan on the same place
            src_r = rng.choice([q_ for q_, (_, m_) in sorted(refs.items()) if not m_])
            rid = max(refs) + 1
            refs[rid] = refs[src_r]
            toks.append("U%d" % src_r); toks.append("B%d:%s" % (rid, loan_of[src_r]))
            lines.append("let r%d := r%d;" % (rid, src_r))
            loan_of[rid] = loan_of[src_r]
        elif r < 5 and refs:
            rid = rng.choice(sorted(refs))
            toks.append("U%d" % rid)
            ty_r, m = refs[rid]
            if m and ty_r == "i32" and rng.below(2):
                lines.append("r%d = %d;" % (rid, 70 + k))              # a write through the mutable reference
            else:
                lines.append(USE_OF[ty_r] % rid)
        elif r < 7:
            toks.append("R%d:%s" % (base, path))
            lines.append(READ_OF[ty] % ((src,) if ty == "i32" else (k, src)))
        elif r < 9:
            toks.append("W%d:%s" % (base, path))
            lines.append(WRITE_OF[ty] % ((src, 50 + k) if ty == "i32" else (src,)))
        else:
            structs = [i for i in pool if PLACES[i][3] in ("P", "In")]
            if structs and rng.below(2) == 0:
                # a method call: a `&'` receiver borrows the receiver place mutably for the call, a `&` receiver reads it
                src, base, path, ty = PLACES[rng.choice(structs)]
                m = rng.below(2) == 0
                toks.append("T%d:%s:%s" % (base, path, "m" if m else "s"))
                lines.append("%s.Touch%s();" % (src, ty) if m else "io::Println(%s.Peek%s());" % (src, ty))
                continue
            i32s = [i for i in pool if PLACES[i][3] == "i32"]
            if not i32s: continue
            src, base, path, ty = PLACES[rng.choice(i32s)]
            m = rng.below(2) == 0
            toks.append("T%d:%s:%s" % (base, path, "m" if m else "s"))
            lines.append("poke(&'%s);" % src if m else "io::Println(peek(&%s));" % src)
    # nest some of the non-declaring statements: the checker keeps a loan alive up to the STATEMENT of the enclosing block that
    # contains the last use, whatever the nesting (branch of an if / else-if chain, match arm, block, loop body); k1 is 1, so each
    # wrapped statement still executes exactly once
    out = []
    for j, l in enumerate(lines):
        if l.startswith("let r") or rng.below(5) >= 2:
            out.append(l); continue
        w = rng.below(6)
        if w == 0: out.append("if k1 == 1 { %s }" % l)
        elif w == 1: out.append("if k1 == 0 { } else if k1 == 1 { %s } else { }" % l)
        elif w == 2: out.append("if k1 == 0 { } else { %s }" % l)
        elif w == 3: out.append("match k1 { 1 => { %s } _ => { } }" % l)
        elif w == 4: out.append("{ { %s } }" % l)
        else: out.append("let w%d: i32 = 0; while w%d < 1 { %s w%d = w%d + 1; }" % (j, j, l, j, j))
    return toks, out


def render(lines, wrap=None):
    body = ["let k1: i32 = 1;", "let y: i32 = 1;", "let x: P = mkP();", "let q: [2]i32 = [3, 4];", "let z: i32 = 2;"] + lines
    tail = ["io::Println(y);", "io::Println(x.A);", "io::Println(x.B);", "io::Println(x.In.C);", "io::Println(x.In.D);", "io::Println(q[0]);", "io::Println(q[1]);", "io::Println(z);"]
    return PRE + "fn main() {\n" + "".join("    " + l + "\n" for l in body + tail) + "}\n"



# ---------------------------------------------------------------------------------------------------------------
# return lifetime: product of (what the returned reference is built from) x (form) x (path) x (mutability) x (host),
# verdict compared with Model/Borrow.lean retRejects (tie) and with RetForm.dangling (the property)

RPRE = 'import "std/io";\ntype Pair struct { .X: i32, .Y: i32 };\ntype H struct { .V: i32 };\nfn mk() -> Pair { return { .X = 1, .Y = 22 } as Pair; }\n'


def ret_cases(tier):
    out = []
    for base in "LVR":
        for nq in range(0, 4 if tier == "quick" else 6):
            var = "q" * nq + base
            is_ref = nq > 0 or base == "R"
            for form in ("b", "i"):
                if form == "i" and not is_ref: continue
                paths = [".Y"] if is_ref else ["", ".Y"]
                for path in (paths if form == "b" else [""]):
                    for mut in ((False, True) if nq <= 1 or base == "R" else (False,)):     # a copy of a `&'` reference to a local is itself a second mutable loan
                        for host in ("func", "method", "closure"):
                            out.append((form, var, path, mut, host))
    return out


def render_ret(form, var, path, mut, host):
    amp = "&'" if mut else "&"
    base, nq = var[-1], len(var) - 1
    params, lets = [], []
    if base == "L":
        lets.append("let x0: Pair = mk();"); cur, is_ref = "x0", False
    elif base == "V":
        params.append("pv: Pair"); cur, is_ref = "pv", False
    else:
        params.append("pr: %sPair" % amp); cur, is_ref = "pr", True
    for k in range(nq):
        lets.append("let q%d: %sPair = %s%s;" % (k, amp, "" if is_ref else amp, cur))
        cur, is_ref = "q%d" % k, True
    if form == "b":
        ret, rty = "return %s%s%s;" % (amp, cur, path), amp + ("i32" if path else "Pair")
    else:
        ret, rty = "return %s;" % cur, amp + "Pair"
    body = "".join("    %s\n" % l for l in lets + [ret])
    if host == "func":
        return RPRE + "fn f(%s) -> %s {\n%s}\nfn main() { }\n" % (", ".join(params), rty, body)
    if host == "method":
        recv = params[0] if params else "h: H"
        return RPRE + "fn (%s) m() -> %s {\n%s}\nfn main() { }\n" % (recv, rty, body)
    return RPRE + "fn main() {\n    let g := fn(%s) -> %s {\n%s    };\n}\n" % (", ".join(params), rty, "".join("    " + l + "\n" for l in body.rstrip("\n").split("\n")))


def check_return_lifetime(rep, tier, st):
    cases = ret_cases(tier)
    model = run_driver(["retlife"], "".join("%s %s\n" % (c[0], c[1]) for c in cases)).split("\n")[:-1]
    res = run_many([{"files": {"main.fer": render_ret(*c)}, "mode": "check", "timeout": 60} for c in cases])
    st["return_cases"] = len(cases); st["return_rejected"] = 0; st["return_dangling"] = 0
    diffs = []
    for c, m, r in zip(cases, model, res):
        form, var, path, mut, host = c
        mrej, dangling = [x == "true" for x in m.split()]
        text = render_ret(*c)
        errs = [d[2] for d in r.diags if d[0] == "error"]
        lerr = [e for e in errs if "cannot return reference" in e]
        other = [e for e in errs if e not in lerr]
        key = "%s:%s:%s:%s:%s" % (form, var, path or "-", "mut" if mut else "shared", host)
        if r.compile_rc not in (0, 1) or other:
            rep.fail("other:ret:" + key, "return-lifetime case %s: compiler fails for another reason: %s" % (key, (other or [strip_ansi(r.compile_out)[-150:]])[0][:150]),
                     {"kind": "input", "files": {"main.fer": text}, "observed": strip_ansi(r.compile_out)[-600:]})
            continue
        rej = bool(lerr)
        st["return_rejected"] += rej; st["return_dangling"] += dangling
        if rej != mrej and len(diffs) < 20:
            diffs.append({"case": key, "compiler_rejects": rej, "model_rejects": mrej})
        if dangling and not rej:
            rep.fail("unsound:ret:" + key, "a %s RETURNS A REFERENCE INTO ITS OWN FRAME and is accepted: %s of `%s` (L = local value, V = by-value parameter, q = local reference variable bound to the next)" %
                     (host, "re-borrow / borrow" if form == "b" else "return of the reference variable", var),
                     {"kind": "input", "files": {"main.fer": text}, "cmd": "ferret -t main.fer", "expected": "error: cannot return reference to local", "observed": "accepted"})
        elif rej and not dangling:
            k2 = "overstrict:ret:reborrow-through-local-ref" if (form == "b" and var.startswith("q") and var.endswith("R")) else "overstrict:ret:" + key
            rep.fail(k2, "a %s returning a reference that points OUTSIDE its frame is rejected (%s): %s" % (host, key, lerr[0][:100]),
                     {"kind": "input", "files": {"main.fer": text}, "cmd": "ferret -t main.fer", "expected": "accepted", "observed": lerr[0]})
    return diffs

BORROW_ERR = ("while it is", "because it is", "cannot borrow", "borrowed")

# fixed programs: (name, source, expect_accept)
FIXED = [
    ("return-ref-to-local", PRE + "fn bad() -> &i32 {\n    let l: i32 = 1;\n    return &l;\n}\nfn main() { }\n", False),
    ("return-mutref-to-local-field", PRE + "fn bad() -> &'i32 {\n    let p: P = mkP();\n    return &'p.A;\n}\nfn main() { }\n", False),
    ("return-ref-param", PRE + "fn pick(a: &i32) -> &i32 { return a; }\nfn main() {\n    let v: i32 = 3;\n    let r: &i32 = pick(&v);\n    io::Println(r);\n}\n", True),
    ("return-ref-to-field-of-ref-param", PRE + "fn fld(p: &'P) -> &'i32 { return &'p.A; }\nfn main() {\n    let x: P = mkP();\n    let r: &'i32 = fld(&'x);\n    r = 5;\n    io::Println(x.A);\n}\n", True),
    ("conflict-in-nested-block", PRE + "fn main() {\n    let y: i32 = 1;\n    let m: &'i32 = &'y;\n    {\n        y = 2;\n    }\n    m = 3;\n    io::Println(y);\n}\n", False),
    ("conflict-in-if-branch", PRE + "fn main() {\n    let y: i32 = 1;\n    let m: &'i32 = &'y;\n    if y > 5 { io::Println(1); } else { y = 2; }\n    m = 3;\n}\n", False),
    ("use-in-else-if-keeps-loan", PRE + "fn main() {\n    let y: i32 = 1;\n    let k: i32 = 2;\n    let m: &'i32 = &'y;\n    y = 5;\n    if k == 1 { io::Println(1); } else if k == 2 { m = 7; } else { io::Println(2); }\n}\n", False),
    ("use-in-loop-keeps-loan", PRE + "fn main() {\n    let y: i32 = 1;\n    let m: &'i32 = &'y;\n    y = 5;\n    let w: i32 = 0;\n    while w < 2 { m = 7; w = w + 1; }\n}\n", False),
    ("use-in-match-keeps-loan", PRE + "fn main() {\n    let y: i32 = 1;\n    let k: i32 = 2;\n    let s: &i32 = &y;\n    y = 5;\n    match k { 1 => { io::Println(s); } _ => { } }\n}\n", False),
    ("loan-over-after-last-use", PRE + "fn main() {\n    let y: i32 = 1;\n    let m: &'i32 = &'y;\n    m = 3;\n    y = 4;\n    io::Println(y);\n}\n", True),
    ("disjoint-fields", PRE + "fn main() {\n    let x: P = mkP();\n    let a: &'i32 = &'x.A;\n    let b: &'i32 = &'x.B;\n    a = 1;\n    b = 2;\n    io::Println(x.A + x.B);\n}\n", True),
    ("shared-twice", PRE + "fn main() {\n    let y: i32 = 1;\n    let a: &i32 = &y;\n    let b: &i32 = &y;\n    io::Println(a);\n    io::Println(b);\n    io::Println(y);\n}\n", True),
    ("copy-of-shared-ref-then-write", PRE + "fn main() {\n    let y: i32 = 1;\n    let s: &i32 = &y;\n    let s2 := s;\n    io::Println(s);\n    io::Println(s2);\n    y = 5;\n    io::Println(y);\n}\n", True),
    ("copy-of-shared-ref-still-live", PRE + "fn main() {\n    let y: i32 = 1;\n    let s: &i32 = &y;\n    let s2 := s;\n    y = 5;\n    io::Println(s2);\n}\n", False),
    ("mut-borrow-while-shared-live", PRE + "fn main() {\n    let x: P = mkP();\n    let s: &P = &x;\n    let m: &'i32 = &'x.A;\n    io::Println(s.A);\n    m = 1;\n}\n", False),
    ("method-through-mut-ref", PRE + "fn (p: &'P) Bump() { p.A = p.A + 1; }\nfn main() {\n    let x: P = mkP();\n    let s: &i32 = &x.A;\n    x.Bump();\n    io::Println(s);\n}\n", False),
    ("element-loans-alias", PRE + "fn main() {\n    let q: [2]i32 = [3, 4];\n    let a: &'i32 = &'q[0];\n    q[1] = 9;\n    a = 1;\n}\n", False),
]
# run-time write-through: (name, source, expected lines)
RUNTIME = [
    ("write-through-local", PRE + "fn main() {\n    let y: i32 = 1;\n    let m: &'i32 = &'y;\n    m = 7;\n    io::Println(y);\n    y = 9;\n    let s: &i32 = &y;\n    io::Println(s);\n}\n", ["7", "9"]),
    ("write-through-field", PRE + "fn main() {\n    let x: P = mkP();\n    let m: &'i32 = &'x.In.C;\n    m = 77;\n    io::Println(x.In.C);\n    io::Println(x.In.D);\n    io::Println(x.A);\n}\n", ["77", "40", "10"]),
    ("write-through-param", PRE + "fn set(r: &'i32, v: i32) { r = v; }\nfn main() {\n    let x: P = mkP();\n    set(&'x.B, 5);\n    io::Println(x.B);\n    io::Println(x.A);\n}\n", ["5", "10"]),
    ("read-through-after-referent-write", PRE + "fn get(r: &i32) -> i32 { return r; }\nfn main() {\n    let y: i32 = 1;\n    y = 4;\n    io::Println(get(&y));\n}\n", ["4"]),
    ("struct-through-mut-ref", PRE + "fn grow(p: &'P) { p.A = p.A + 1; p.In.D = 41; }\nfn main() {\n    let x: P = mkP();\n    grow(&'x);\n    io::Println(x.A);\n    io::Println(x.In.D);\n    io::Println(x.B);\n}\n", ["11", "41", "20"]),
]


def main():
    tier = os.environ.get("VERIF_TIER", "quick")
    rep = Report(PID)
    rng = SplitMix64(seed() * 86028157 + 7)
    try:
        build_ferret(); fvdriver()
    except BuildError as e:
        log(str(e))
        rep.fail("tie:build", "compiler / driver no longer builds (tie broken)", {"kind": "broken-obligation", "detail": str(e)[-2000:]}, no_input=True)
        write_evidence(PID, "other", {"explanation": "build failed", "obligations": 1, "discharged": 0}, violations=1)
        return rep.finish()
    n = 500 if tier == "quick" else 6000
    seqs, seen = [], set()
    while len(seqs) < n:
        toks, lines = gen_events(rng)
        key = " ".join(toks)
        if toks and key not in seen:
            seen.add(key); seqs.append((toks, lines))
    model = run_driver(["borrow"], "".join(" ".join(t) + "\n" for t, _ in seqs)).split("\n")
    res = run_many([{"files": {"main.fer": render(l)}, "mode": "check", "timeout": 60} for _, l in seqs])
    st = {"sequences": len(seqs), "model_rejects": 0, "compiler_rejects": 0, "agree": 0, "executed": 0, "fixed": len(FIXED), "runtime": len(RUNTIME), "other_errors": 0}
    torun = []
    for (toks, lines), m, r in zip(seqs, model, res):
        text = render(lines)
        key = hashlib.sha1(" ".join(toks).encode()).hexdigest()[:12]
        errs = [d[2] for d in r.diags if d[0] == "error"]
        berr = [e for e in errs if any(b in e for b in BORROW_ERR)]
        other = [e for e in errs if e not in berr]
        if r.compile_rc not in (0, 1) or other:
            st["other_errors"] += 1
            rep.fail("other:" + key, "borrow sequence [%s]: compiler fails for another reason: %s" % (" ".join(toks), (other or [strip_ansi(r.compile_out)[-150:]])[0][:150]),
                     {"kind": "input", "files": {"main.fer": text}, "events": toks, "observed": strip_ansi(r.compile_out)[-600:]})
            continue
        mrej = m.startswith("reject")
        crej = bool(berr)
        st["model_rejects"] += mrej; st["compiler_rejects"] += crej
        if mrej == crej:
            st["agree"] += 1
            if not crej and any("= 7" in l or l.startswith("r") and " = " in l for l in lines): torun.append((toks, lines))
            continue
        if mrej and not crej:
            rep.fail("unsound:" + key, "conflicting program is ACCEPTED: events [%s]; event %s conflicts with a loan that is still used later" % (" ".join(toks), m.split()[-1]),
                     {"kind": "input", "files": {"main.fer": text}, "events": toks, "cmd": "ferret -t main.fer", "expected": "borrow error at event " + m.split()[-1], "observed": "accepted"})
        else:
            rep.fail("overstrict:" + key, "legal program is REJECTED: events [%s] respect aliasing-xor-mutation (every conflicting loan has passed its last use): %s" % (" ".join(toks), berr[0][:120]),
                     {"kind": "input", "files": {"main.fer": text}, "events": toks, "cmd": "ferret -t main.fer", "expected": "accepted", "observed": berr[0]})
    # accepted sequences with writes through references: execute; the printed state must be what straight-line semantics give
    torun = torun[: (40 if tier == "quick" else 400)]
    if torun:
        rr = run_many([{"files": {"main.fer": render(l)}, "mode": "run", "timeout": 30} for _, l in torun])
        for (toks, lines), r in zip(torun, rr):
            exp = simulate(lines)
            st["executed"] += 1
            if exp is not None and (not r.accepted or r.run_rc != 0 or r.lines != exp):
                rep.fail("runtime:" + hashlib.sha1(" ".join(toks).encode()).hexdigest()[:12], "accepted program with references prints %s, expected %s (events [%s])" % (r.lines[-8:], exp[-8:], " ".join(toks)),
                         {"kind": "input", "files": {"main.fer": render(lines)}, "expected": exp, "observed": r.lines, "cmd": "ferret -o out main.fer && ./out"})
    fixed = [] if os.environ.get("VERIF_C07_GENERATED_ONLY") else FIXED
    fr = run_many([{"files": {"main.fer": src}, "mode": "check", "timeout": 60} for _, src, _ in fixed])
    for (name, src, acc), r in zip(fixed, fr):
        errs = [d[2] for d in r.diags if d[0] == "error"]
        if r.compile_rc not in (0, 1):
            rep.fail("crash:" + name, "compiler crashed on fixed borrow program " + name, {"kind": "input", "files": {"main.fer": src}})
        elif acc and not r.accepted:
            rep.fail("overstrict:fixed:" + name, "legal program `%s` is rejected: %s" % (name, errs[:1]), {"kind": "input", "files": {"main.fer": src}, "expected": "accepted", "observed": errs[:2]})
        elif not acc and r.accepted:
            rep.fail("unsound:fixed:" + name, "program `%s` violates the reference rules and is ACCEPTED" % name, {"kind": "input", "files": {"main.fer": src}, "expected": "rejected", "observed": "accepted"})
    rt = run_many([{"files": {"main.fer": src}, "mode": "run", "timeout": 30} for _, src, _ in RUNTIME])
    for (name, src, exp), r in zip(RUNTIME, rt):
        if not r.accepted or r.run_rc != 0 or r.lines != exp:
            rep.fail("runtime:fixed:" + name, "write-through program `%s` prints %s (exit %s, %s), expected %s" % (name, r.lines, r.run_rc, strip_ansi(r.compile_out)[-100:], exp),
                     {"kind": "input", "files": {"main.fer": src}, "expected": exp, "observed": r.lines})

    ret_diffs = check_return_lifetime(rep, tier, st)
    if ret_diffs and not rep.violations:
        rep.fail("tie:retlife", "Model/Borrow.lean retRejects and the compiler's return-lifetime check disagree on %d cases although the property holds on each" % len(ret_diffs),
                 {"kind": "broken-obligation", "correspondence": "fvdriver retlife vs ferret -t", "diffs": ret_diffs}, no_input=True)

    ok, outp = lake_build(["FerretVerif.Props.C07"])
    tn = theorem_names("C07")
    axioms, discharged = {}, 0
    if ok:
        axioms, _ = audit_theorems("C07", tn)
        for nm in tn:
            ax = axioms.get(nm)
            if ax is not None and set(ax) <= ALLOWED_AXIOMS: discharged += 1
            else: rep.fail("axioms:" + nm, "theorem %s missing or depends on unexpected axioms %s" % (nm, ax), {"kind": "broken-obligation", "theorem": nm}, no_input=True)
    else:
        log(outp[-3000:])
        rep.fail("proof:C07", "Props/C07.lean no longer builds", {"kind": "broken-obligation", "detail": outp[-3000:]}, no_input=True)
    forb = grep_forbidden()
    if forb:
        rep.fail("audit:forbidden", "forbidden construct in Lean sources: %s" % forb[:3], {"kind": "broken-obligation", "hits": forb[:20]}, no_input=True)
    if st["other_errors"] > len(seqs) // 5:
        rep.fail("gen:errors", "%d of %d generated programs fail for unrelated reasons" % (st["other_errors"], len(seqs)), {"kind": "broken-obligation", "correspondence": "c07 rendering"}, no_input=True)
    cov = {
        "explanation": "PARTIAL: proof-level for the straight-line fragment (overlap laws, aliasing-xor-mutation invariant of accepted runs, soundness of the access checks, exact loan lifetime); branches, loops, closures, references returned by calls, "
                       "and the run-time half (write-through) are exercised by fixed programs and executed accepted sequences only. RETURN LIFETIME: proof-level for returns built from a local value, a by-value or reference parameter "
                       "and chains of local reference variables of any length (return_rejected_iff_dangling), tied by the product of such forms x paths x mutability x {function, method, function literal}.",
        "obligations": len(tn), "discharged": discharged,
        "checker_cmd": "cd /verif/lean && lake build FerretVerif.Props.C07 && #print axioms per theorem",
        "trusted_base": ["Lean 4 kernel", "axioms: " + ", ".join(sorted({a for v in axioms.values() if v for a in v})), "event -> Ferret rendering", "classification of diagnostic texts as borrow errors", "Python straight-line simulator for executed sequences"],
        "theorems": [{"name": nm, "axioms": axioms.get(nm)} for nm in tn],
        "evaluations": len(seqs) + len(FIXED) + len(RUNTIME) + st["executed"], "distinct_nontrivial": st["model_rejects"],
        "rule": "seeded distinct event sequences of 3..8 events over 11 places (whole variables, fields, nested fields, array elements, an unrelated variable) and up to 3 reference variables, biased to one base; "
                "non-trivial = sequences the model rejects (a conflict exists); + %d fixed verdict programs and %d fixed run-time programs" % (len(FIXED), len(RUNTIME)),
        "samples": [" ".join(t) for t, _ in seqs[:5]], "stats": st,
    }
    write_evidence(PID, "other", cov, assumptions=["a reference obtained from a call result is outside the fragment (known design limitation of the checker: its loan is temporary)"], violations=len(rep.violations))
    return rep.finish()


def simulate(lines):
    """expected output of an ACCEPTED straight-line sequence (references alias their referent)"""
    env = {"y": 1, "x.A": 10, "x.B": 20, "x.In.C": 30, "x.In.D": 40, "q[0]": 3, "q[1]": 4, "z": 2}
    refs, out = {}, []
    import re
    flat = []
    for l in lines:
        m = re.search(r"\{ ((?:io::Println|r\d+ =|\S+ = |let c|poke)[^{}]*;) ", l + " ")
        if l.startswith(("if k1", "match k1", "{ {", "let w")):
            inner = re.findall(r"\{ ([^{}]*?;) (?:w\d+ = w\d+ \+ 1; )?\}", l)
            inner = [x for x in inner if x.strip()]
            if len(inner) != 1: return None
            flat.append(inner[0].strip())
        else:
            flat.append(l)
    for l in flat:
        m = re.match(r"let r(\d+) := r(\d+);", l)
        if m:
            refs[int(m.group(1))] = refs[int(m.group(2))]; continue
        m = re.match(r"let r(\d+): &'?(\S+) = &'?(\S+);", l)
        if m:
            refs[int(m.group(1))] = (m.group(3), m.group(2)); continue
        m = re.match(r"r(\d+) = (\d+);", l)
        if m:
            tgt = refs[int(m.group(1))][0]
            if tgt not in env: return None
            env[tgt] = int(m.group(2)); continue
        m = re.match(r"io::Println\(r(\d+)(\.A|\.C|\[0\])?\);", l)
        if m:
            tgt, ty = refs[int(m.group(1))]
            key = tgt + (m.group(2) or "") if ty != "i32" else tgt
            key = key.replace("x.In.C", "x.In.C")
            if key not in env: return None
            out.append(str(env[key])); continue
        m = re.match(r"io::Println\(peek\(&(\S+)\)\);", l)
        if m: out.append("1"); continue
        m = re.match(r"io::Println\((\S+)\);", l)
        if m:
            if m.group(1) not in env: return None
            out.append(str(env[m.group(1)])); continue
        m = re.match(r"(\S+) = (\d+);", l)
        if m:
            if m.group(1) not in env: return None
            env[m.group(1)] = int(m.group(2)); continue
        if l.startswith("x = mkP()"):
            env.update({"x.A": 10, "x.B": 20, "x.In.C": 30, "x.In.D": 40}); continue
        if l.startswith("x.In = mkIn()"):
            env.update({"x.In.C": 30, "x.In.D": 40}); continue
        if l.startswith("q = [5, 6]"):
            env.update({"q[0]": 5, "q[1]": 6}); continue
        if l.startswith(("let c", "poke(")): continue
        return None
    return out + [str(env[k]) for k in ("y", "x.A", "x.B", "x.In.C", "x.In.D", "q[0]", "q[1]", "z")]


if __name__ == "__main__":
    sys.exit(main())
