"""C20 — TOML configuration survives a write/parse round trip.
Theorems: Props/C20.lean over Model/Toml.lean.  Tie: gohook toml-* (real toml package through an overlay) vs
fvdriver toml-*.  Violation oracle: reflect.DeepEqual of written vs re-read tables on the writable domain,
equality of parsed dumps under inserted comments/blanks, no crash on arbitrary bytes."""
import os, sys, json
sys.path.insert(0, os.path.join(os.path.dirname(os.path.abspath(__file__)), "..", "lib"))
from common import *

PID = "C20"
SECTIONS = ["default", "compiler", "build", "cache", "external", "neighbors", "dependencies"]
SAFE_CHARS = list("abcXYZ019 _-.,:;/#=[]{}()'!?*+<>|~`@$%^&\tμ日é") + [" ", " ", "#", "="]
KEY_CHARS = "abcdefghijklmnopqrstuvwxyzABCDEFGHIJKLMNOPQRSTUVWXYZ0123456789_-"


def hx(s):
    b = s.encode("utf-8") if isinstance(s, str) else s
    return b.hex() if b else "-"


def gen_string(rng, domain=True):
    n = rng.choice([0, 1, 1, 2, 3, 5, 8, 13, 40])
    pool = SAFE_CHARS if domain else SAFE_CHARS + ['"', "\\", "\r", "\n", '"', "\\"]
    s = "".join(rng.choice(pool) for _ in range(n))
    if domain and s in ("true", "false"):
        s += "x"
    return s


def gen_key(rng):
    return "".join(rng.choice(KEY_CHARS) for _ in range(1 + rng.below(8)))


def gen_float(rng):
    r = rng.below(12)
    if r == 0: return float(rng.below(1000))                     # integral
    if r == 1: return -float(rng.below(1000))
    if r == 2: return rng.below(10 ** 6) / 1000.0
    if r == 3: return 1e21 * (1 + rng.below(5))
    if r == 4: return 5e-324
    if r == 5: return 1.7976931348623157e308
    if r == 6: return -0.0
    if r == 7: return float(2 ** 53 + rng.below(3) * 2)
    if r == 8: return 0.1 + rng.below(10)
    if r == 9: return float(2 ** 63)                              # integral but beyond int64: Atoi fails
    import struct
    bits = rng.next()
    f = struct.unpack("<d", struct.pack("<Q", bits))[0]
    if f != f or f in (float("inf"), float("-inf")):
        return 1.5
    return f


def gen_value(rng):
    r = rng.below(10)
    if r < 4: return ("s", gen_string(rng))
    if r < 5: return ("b", rng.choice(["0", "1"]))
    if r < 7:
        return ("i", str(rng.choice([0, 1, -1, 2 ** 31 - 1, -2 ** 31, 2 ** 63 - 1, -2 ** 63, rng.below(10 ** 6), -rng.below(10 ** 9)])))
    return ("f", repr(gen_float(rng)))


def canon(dump):
    """floats compared as numbers: Go prints the parsed value, the model the accepted text"""
    import re
    def f1(m):
        try: return "=float:" + repr(float(m.group(1)))
        except ValueError: return m.group(0)
    def f2(m):
        try: return "=float:" + repr(float(bytes.fromhex(m.group(1)).decode()))
        except ValueError: return m.group(0)
    dump = re.sub(r"=float:(\S+)", f1, dump)
    return re.sub(r"=floattext:([0-9a-f]*)", f2, dump)


def gen_comment(rng):
    """an inline comment: '#' then free text over an alphabet with quotes, '#', '=', brackets; often starting or ending with a quote"""
    body = "".join(rng.choice(list('ab "#=[]\\\'.1') + ['"', '"', " "]) for _ in range(rng.below(12)))
    r = rng.below(4)
    if r == 0: body = body + '"'
    if r == 1: body = '"' + body
    if r == 2: body = 'set via "' + body + '"'
    return rng.choice([" ", "  ", "\t"]) + "#" + rng.choice(["", " "]) + body


def main():
    tier = os.environ.get("VERIF_TIER", "quick")
    rep = Report(PID)
    rng = SplitMix64(seed() * 15485863 + 20)
    N = 400 if tier == "quick" else 6000
    try:
        hook = build_gohook()
        fvdriver()
    except BuildError as e:
        log(str(e))
        rep.fail("tie:build", "gohook / driver no longer builds against the tree (tie broken)",
                 {"kind": "broken-obligation", "correspondence": "gohook toml-*", "detail": str(e)[-2000:]}, no_input=True)
        write_evidence(PID, "proof", {"obligations": 1, "discharged": 0, "checker_cmd": "lake build FerretVerif.Props.C20",
                                      "trusted_base": [], "explanation": "build failed"}, violations=1)
        return rep.finish()

    def go(sub, lines):
        p = run([hook, sub], input="".join(l + "\n" for l in lines), check=True)
        return p.stdout.split("\n")[:len(lines)]

    def model(sub, lines):
        return run_driver([sub], "".join(l + "\n" for l in lines)).split("\n")[:len(lines)]

    diffs = []
    stats = {}

    # ---- 1. value formatting (model is fed FormatFloat's raw text for floats)
    vals = [gen_value(rng) for _ in range(N)] + [("s", gen_string(rng, domain=False)) for _ in range(N // 4)] + \
           [("s", "true"), ("s", "false"), ("s", ""), ("f", "3.0"), ("f", "-0.0"), ("f", "1e21"), ("f", "0.000001")]
    g = go("toml-fmt", ["%s %s" % (k, hx(v)) for k, v in vals])
    mlines = []
    for (k, v), out in zip(vals, g):
        f = out.split()
        mlines.append("f %s" % f[1] if k == "f" else "%s %s" % (k, hx(v)))
    m = model("toml-fmt", mlines)
    for (k, v), a, b in zip(vals, g, m):
        if a.split()[0] != b and len(diffs) < 30:
            diffs.append({"sub": "toml-fmt", "in": [k, v], "go": a, "model": b})
    stats["fmt"] = len(vals)

    # ---- 2. parseValue / stripInlineComment on tricky strings (float-looking tokens kept inside the recogniser's exact domain)
    toks = []
    alpha = list('ab#"\\ =19.-+eE\t') + ["true", "false", '"', "#", " "]
    for _ in range(N * 2):
        toks.append("".join(rng.choice(alpha) for _ in range(rng.below(9))))
    toks += ['"a"', '""', '"', '"a', 'a"', '""a""', "true", "false", "True", "1", "-1", "+1", "01", "1.5", "-.5", "5.", ".", "1e5", "1E-5", "1e", "e1",
             "9223372036854775807", "9223372036854775808", "-9223372036854775808", "-9223372036854775809", "inf", "-Inf", "nan", "NaN", "Infinity",
             '"a # b" # c', '"a" # "b"', '"0.1.0" # set via "x"', '"a" #"', '"a"#""', "a # b", 'a "#" b', '"\\" # x', "a\\# b", ' x ', "3.0 # three"]
    toks = [t for t in toks if not (len(t) > 6 and t.lower().count("e") and any(ch.isdigit() for ch in t) and False)]
    g = go("toml-parseval", [hx(t) for t in toks]); m = model("toml-parseval", [hx(t) for t in toks])
    for t, a, b in zip(toks, g, m):
        # Go prints the parsed float, the model the accepted text: compare kinds and, for floats, only the kind
        ak, bk = a.split(":")[0], b.split(":")[0].replace("floattext", "float")
        if ak != bk or (ak != "float" and a != b):
            if len(diffs) < 30: diffs.append({"sub": "toml-parseval", "in": t, "go": a, "model": b})
    g = go("toml-strip", [hx(t) for t in toks]); m = model("toml-strip", [hx(t) for t in toks])
    for t, a, b in zip(toks, g, m):
        if a != b and len(diffs) < 30: diffs.append({"sub": "toml-strip", "in": t, "go": a, "model": b})
    stats["parseval"] = len(toks)

    # ---- 3. round trip of generated tables over the writable domain (the property)
    tables = []
    for _ in range(N):
        items = []
        for _ in range(1 + rng.below(8)):
            sec = rng.choice(SECTIONS)
            k, v = gen_value(rng)
            items.append((sec, gen_key(rng), k, v))
        tables.append(items)
    tables.append([("default", "a", "f", "3.0")])
    tables.append([("build", "neg", "f", "-0.0"), ("build", "big", "f", "1e300"), ("cache", "s", "s", " lead # and = trail ")])
    # floats: obtain FormatFloat raw through the hook for the model
    fl = sorted({v for t in tables for (_, _, k, v) in t if k == "f"})
    raws = {v: o.split()[1] for v, o in zip(fl, go("toml-fmt", ["f %s" % hx(v) for v in fl]))}
    g = go("toml-rt", [" ".join("%s:%s:%s:%s" % (hx(s), hx(k), kd, hx(v)) for s, k, kd, v in t) for t in tables])
    m = model("toml-rt", [" ".join("%s:%s:%s:%s" % (hx(s), hx(k), kd, raws[v] if kd == "f" else hx(v)) for s, k, kd, v in t) for t in tables])
    rt_ok = 0
    for t, a, b in zip(tables, g, m):
        av = a.split()[0]
        if av != "equal":
            written = bytes.fromhex(a.split()[1]).decode("utf-8", "replace") if len(a.split()) > 1 and a.split()[1] != "-" else ""
            key = "rt:" + ";".join("%s.%s=%s:%s" % x for x in t)
            rep.fail(key, "table %r is not read back as written (%s)" % (t, av),
                     {"kind": "input", "table": t, "written_file": written, "observed": a[:2000], "expected": "reflect.DeepEqual(read, written)",
                      "cmd": "gohook toml-rt (WriteTOMLFile -> ParseTOMLFile -> reflect.DeepEqual)"})
        else:
            rt_ok += 1
        if av != b.split()[0] and len(diffs) < 30:
            diffs.append({"sub": "toml-rt", "in": t, "go": a[:300], "model": b[:300]})
    stats["roundtrip_tables"] = len(tables)

    # ---- 4. comments and blanks are inert; files: mostly-valid, noisy, raw bytes
    files, base_of = [], []
    for t, a in list(zip(tables, g))[: N // 2]:
        f = a.split()
        if f[0] != "equal" or len(f) < 2 or f[1] == "-":
            continue
        text = bytes.fromhex(f[1]).decode("utf-8")
        lines = text.split("\n")
        out = []
        for ln in lines:
            r = rng.below(6)
            if r == 0: out.append("# comment = [x] \"q\"")
            if r == 1: out.append("   ")
            if r == 2: out.append("\t")
            if ln and not ln.startswith("[") and rng.below(2):
                pad = rng.choice([" ", "\t", "   "])
                k, _, v = ln.partition(" = ")
                ln = pad + k + rng.choice([" = ", "=", "  =\t", " = "]) + v + rng.choice(["", " ", "  # trailing comment", "\t#c", " # a \"quoted\" remark", gen_comment(rng), gen_comment(rng)])
            elif ln.startswith("["):
                ln = rng.choice(["", " "]) + ln + rng.choice(["", "  "])
            out.append(ln + ("\r" if rng.below(5) == 0 else ""))
        files.append(text); base_of.append(None)
        files.append("\n".join(out)); base_of.append(len(files) - 2)
    nbase = len(files)
    for _ in range(N // 2):
        n = rng.below(6)
        ls = []
        for _ in range(n):
            r = rng.below(8)
            if r == 0: ls.append("[" + gen_key(rng) + "]")
            elif r == 1: ls.append("# " + gen_string(rng))
            elif r == 2: ls.append(gen_string(rng, domain=False))
            elif r == 3: ls.append("[ " + gen_string(rng) + " ]")
            else: ls.append(gen_key(rng) + rng.choice(["=", " = "]) + rng.choice(toks[:200] + ["1", "true", '"x"']))
        files.append("\n".join(ls) + rng.choice(["", "\n"])); base_of.append(None)
    raw_files = [bytes(rng.below(256) for _ in range(rng.below(40))) for _ in range(N // 2)]
    raw_files += [b"\xff\xfe=\x00", b"[", b"]", b"[]", b"=", b"==", b"a=", b"=a", b"[a", b"a]", b"\"", b"a=\"", b"[\xc3]", b"a = \xe2\x28\xa1"]
    g = go("toml-file", [hx(f) for f in files] + [hx(f) for f in raw_files])
    m = model("toml-file", [hx(f) for f in files])
    for i, f in enumerate(files):
        if canon(g[i]) != canon(m[i]) and len(diffs) < 30:
            diffs.append({"sub": "toml-file", "in": f, "go": g[i][:300], "model": m[i][:300]})
        if base_of[i] is not None and g[i] != g[base_of[i]]:
            rep.fail("inert:" + hx(f)[:60], "inserting comments / blanks changed the parsed values",
                     {"kind": "input", "file": f, "base_file": files[base_of[i]], "observed": g[i][:1500], "expected": g[base_of[i]][:1500], "cmd": "gohook toml-file"})
    for f, out in zip(raw_files, g[len(files):]):
        if out.startswith("panic") or not (out.startswith("ok") or out == "err"):
            rep.fail("crash:" + f.hex(), "ParseTOMLFile crashed on file content %r: %s" % (f, out),
                     {"kind": "input", "file_hex": f.hex(), "observed": out, "cmd": "gohook toml-file"})
    for f, out in zip(files, g):
        if out.startswith("panic"):
            rep.fail("crash:" + hx(f)[:80], "ParseTOMLFile crashed: %s" % out, {"kind": "input", "file": f, "observed": out, "cmd": "gohook toml-file"})
    stats["files"] = len(files) + len(raw_files)

    # ---- 5. a long value line (bufio.Scanner's 64 KiB token limit)
    longv = "x" * 70000
    a = go("toml-rt", ["%s:%s:s:%s" % (hx("default"), hx("k"), hx(longv))])[0]
    if a.split()[0] != "equal":
        rep.fail("rt:long-line-70000", "a 70000-character string value is written but cannot be read back (%s): line longer than bufio.Scanner's 64 KiB limit" % a.split()[0],
                 {"kind": "input", "table": [["default", "k", "s", "x*70000"]], "observed": a.split()[0], "expected": "equal", "cmd": "gohook toml-rt"})

    # ---- proof obligations
    ok, out = lake_build(["FerretVerif.Props.C20"])
    names = theorem_names("C20")
    axioms, discharged = {}, 0
    if ok:
        axioms, _ = audit_theorems("C20", names)
        for n in names:
            ax = axioms.get(n)
            if ax is not None and set(ax) <= ALLOWED_AXIOMS:
                discharged += 1
            else:
                rep.fail("axioms:" + n, "theorem %s missing or depends on unexpected axioms %s" % (n, ax),
                         {"kind": "broken-obligation", "theorem": n, "axioms": ax}, no_input=True)
    else:
        log(out[-3000:])
        rep.fail("proof:C20", "Props/C20.lean no longer builds", {"kind": "broken-obligation", "detail": out[-3000:]}, no_input=True)
    forb = grep_forbidden()
    if forb:
        rep.fail("audit:forbidden", "forbidden construct in Lean sources: %s" % forb[:3], {"kind": "broken-obligation", "hits": forb[:20]}, no_input=True)
    if diffs and not rep.violations and not rep.known_hit:
        rep.fail("tie:toml", "Model/Toml.lean and the toml package disagree on %d inputs although the round trip holds on every generated table" % len(diffs),
                 {"kind": "broken-obligation", "correspondence": "fvdriver toml-* vs gohook toml-*", "diffs": diffs}, no_input=True)

    total = sum(stats.values())
    cov = {
        "obligations": len(names), "discharged": discharged,
        "checker_cmd": "cd /verif/lean && lake build FerretVerif.Props.C20 && #print axioms per theorem",
        "trusted_base": ["Lean 4 kernel", "axioms: " + ", ".join(sorted({a for v in axioms.values() if v for a in v})),
                         "strconv.FormatFloat/ParseFloat facts stated as theorem hypotheses (shape of 'f' format; ParseFloat(FormatFloat f) = f)",
                         "gohook toml-* wrappers; reflect.DeepEqual as the round-trip oracle"],
        "theorems": [{"name": n, "axioms": axioms.get(n)} for n in names],
        "evaluations": total, "distinct_nontrivial": len({json.dumps(t) for t in tables if len(t) > 1}),
        "rule": "values: strings over a pool with blanks, '#', '=', brackets, unicode (plus quotes/backslashes/newlines for correspondence only), bools, "
                "boundary ints, floats incl. integral, -0.0, 1e21, denormal, random bit patterns; tables over the 7 writable sections; files with inserted "
                "comments/blanks/CR, noisy and raw-byte files; non-trivial = distinct round-trip tables with >1 entry",
        "samples": [tables[i] for i in range(0, len(tables), max(1, len(tables) // 5))][:6],
        "model_vs_code_diffs": diffs[:10], "streams": stats, "roundtrip_equal": rt_ok,
    }
    write_evidence(PID, "proof", cov, assumptions=["keys are bare keys [A-Za-z0-9_-]+", "NaN/Inf are not finite floats (outside the property)"],
                   violations=len(rep.violations))
    return rep.finish()


if __name__ == "__main__":
    sys.exit(main())
