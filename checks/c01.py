"""C01 — native executables behave as the source program's defined semantics.
Spec: lean/FerretVerif/Core/Eval.lean (reference interpreter) + Props/C01.lean (operator semantics theorems,
instruction-selection table theorems).  Tie: whole-compiler correspondence — fragment catalogue (every construct
form, compared with the committed baseline) and random Core Ferret programs, native executable vs `run`."""
import os, sys, json
sys.path.insert(0, os.path.join(os.path.dirname(os.path.abspath(__file__)), "..", "lib"))
from common import *
from wholeprog import *
import qbesel

PID = "C01"
NATIVE_FEATS = {"cast", "large", "struct", "method", "method-val", "struct-fn", "fixed-array", "dyn-array", "optional", "match", "while", "for", "recursion", "eval-order", "eval-order-struct"}


def main():
    tier = os.environ.get("VERIF_TIER", "quick")
    rep = Report(PID)
    stats = {}
    try:
        build_ferret()
        fvdriver()
    except BuildError as e:
        log(str(e))
        rep.fail("tie:build", "compiler / driver no longer builds (tie broken)", {"kind": "broken-obligation", "detail": str(e)[-2000:]}, no_input=True)
        write_evidence(PID, "other", {"explanation": "build failed", "evaluations": 1, "distinct_nontrivial": 2}, violations=1)
        return rep.finish()
    check_catalogue(rep, PID, "native", stats)
    try:
        qbesel.check_selection(rep, PID, tier, stats)
    except BuildError as e:
        rep.fail("tie:qbesel", "instruction-selection tie cannot run", {"kind": "broken-obligation", "detail": str(e)[-2000:]}, no_input=True)
        stats["selection"] = {"rows": 0, "rows_of_proved_shape": 0, "observations_compared": 0, "mismatches": 0, "per_kind": {}}
    n = 120 if tier == "quick" else 1500
    random_programs(rep, PID, "native", NATIVE_FEATS, n, seed() * 100000 + 1000, stats)

    ok, out = lake_build(["FerretVerif.Props.C01"])
    names = theorem_names("C01")
    axioms, discharged = {}, 0
    if ok:
        axioms, _ = audit_theorems("C01", names)
        for nm in names:
            ax = axioms.get(nm)
            if ax is not None and set(ax) <= ALLOWED_AXIOMS:
                discharged += 1
            else:
                rep.fail("axioms:" + nm, "theorem %s missing or depends on unexpected axioms %s" % (nm, ax), {"kind": "broken-obligation", "theorem": nm}, no_input=True)
    else:
        log(out[-3000:])
        rep.fail("proof:C01", "Props/C01.lean no longer builds", {"kind": "broken-obligation", "detail": out[-3000:]}, no_input=True)
    forb = grep_forbidden()
    if forb:
        rep.fail("audit:forbidden", "forbidden construct in Lean sources: %s" % forb[:3], {"kind": "broken-obligation", "hits": forb[:20]}, no_input=True)

    rs = stats["random_native"]
    sel = stats["selection"]
    cov = {
        "explanation": "PARTIAL. Theorem part (kernel-checked, %d/%d): the reference semantics' integer operators are exactly the mathematical "
                       "operation reduced to the declared width (two's complement), division truncates, remainder takes the dividend's sign "
                       "(see theorems); INSTRUCTION SELECTION: the IL the current compiler emits for every integer operator x type and every integer cast "
                       "(%d rows, regenerated into Gen/QbeSel.lean) is proved, for all operand values, to compute the canonical temporary of the "
                       "source-level result in the QBE semantics of Model/QbeSem.lean (sel_table_correct; %d/%d rows of a proved shape), and the model's "
                       "prediction was compared with the real executable on %d calls (edge and random operands, result printed directly and widened). "
                       "NOT proved: the rest of the AST->HIR->MIR->QBE lowering (~10 kLoC of Go), QBE's own passes, as, ld: these are covered only by "
                       "differential execution — every construct form of the fragment catalogue (%d probes) and %d random well-typed programs "
                       "(%d output lines) compiled with the real compiler and compared line by line with the Lean reference interpreter." %
                       (discharged, len(names), sel["rows"], sel["rows_of_proved_shape"], sel["rows"], sel["observations_compared"], len(catalogue.PROBES), rs["programs"], rs["lines_compared"]),
        "obligations": len(names), "discharged": discharged,
        "theorems": [{"name": nm, "axioms": axioms.get(nm)} for nm in names],
        "evaluations": len(catalogue.PROBES) + rs["programs"], "distinct_nontrivial": rs["programs"],
        "rule": "catalogue: one probe per construct form; random: type-directed generator over the forms that are sound in the baseline "
                "(features %s), programs are distinct by construction (seeded); non-trivial = random programs (each ~45 printed lines)" % sorted(NATIVE_FEATS),
        "samples": [p[0] for p in catalogue.PROBES[:6]],
        "catalogue": stats["catalogue"], "random": rs, "selection": sel,
        "trusted_base": ["Lean 4 kernel", "lib/qbesel.py (IL text -> Gen/QbeSel.lean rows)", "Model/QbeSem.lean evalOp as the meaning of QBE opcodes (validated against the executable on every observation)", "Core/Print.lean (AST -> .fer text)", "Python program generator and runner", "gcc/as/ld, libc printf formats"],
    }
    write_evidence(PID, "other", cov, assumptions=["generated programs never divide by zero or by -1 and avoid construct forms that are broken in the baseline (each such form is a known finding monitored by its probe)"],
                   violations=len(rep.violations))
    return rep.finish()


if __name__ == "__main__":
    sys.exit(main())
