"""C06 — immutable bindings cannot be modified.
Theorems: Props/C06.lean over Model/Mut.lean.  Tie: the full product (12 root kinds x access paths to depth 3 x
6 mutation forms x 5 syntactic contexts) compiled with `ferret -t`; the verdict is compared with the model
(correspondence) and with the property itself (immutable root => rejected; mutable root => accepted)."""
import os, sys, json
sys.path.insert(0, os.path.join(os.path.dirname(os.path.abspath(__file__)), "..", "lib"))
from common import *
from ferretrun import *

PID = "C06"
ROOTS = ["let", "const", "forindex", "forindex_str", "forindex_named_str", "forindex_range", "forindex_map", "catcherr", "param_val", "param_ref", "param_mut", "recv_val", "recv_ref", "recv_mut", "local_ref", "local_mut"]
# (source suffix applied to the root variable `v`, model path letters outermost-first, type of the place)
PATHS = [("", "-", "P"), (".X", "f", "i32"), (".In.X", "ff", "i32"), (".Q[0]", "if", "i32"), ("(v).X", "fp", "i32"), (".In.Q[1]", "iff", "i32"),
         ("((v).In).X", "fpfp", "i32"), (".In", "f", "In"), (".Q[1]", "if", "i32")]
# places inside a HOLDER struct whose fields / elements are themselves references: (suffix, letters, type of the place, place is itself `imm`/`mut` reference or None)
# letters: F / I = the step yields `&T`, G / J = the step yields `&'T`
HOLDER_ROOTS = ["let_h", "const_h", "param_val_h", "param_ref_h", "param_mut_h", "recv_mut_h", "local_mut_h"]
HOLDER_PATHS = [(".R.X", "fF", "i32", None), (".R.In.X", "ffF", "i32", None), (".R.Q[0]", "ifF", "i32", None), (".RS[1].X", "fIf", "i32", None), (".RS[0].In", "fIf", "In", None),
                ("(v.R).X", "fpF", "i32", None), (".R", "F", "P", "imm"), (".RS[0]", "If", "P", "imm"),
                (".M.X", "fG", "i32", None), (".MS[0].X", "fJf", "i32", None), (".M.In", "fG", "In", None), (".M.In.Q[1]", "iffG", "i32", None), (".M", "G", "P", "mut"), (".MS[0]", "Jf", "P", "mut")]
HOLDER_PRE = "type HH struct { .R: &P, .M: &'P, .RS: [2]&P, .MS: [1]&'P };\n"
FORMS = ["assign", "assign_ref", "compound", "incdec", "mutborrow", "passmut", "mutmethod"]
MODEL_ROOT_H = {"let_h": "let", "const_h": "const", "param_val_h": "param_val", "param_ref_h": "param_ref", "param_mut_h": "param_mut", "recv_mut_h": "recv_mut", "local_mut_h": "local_mut"}
MODEL_ROOT = {**MODEL_ROOT_H, "forindex_str": "forindex", "forindex_named_str": "forindex", "forindex_range": "forindex", "forindex_map": "forindex"}
MODEL_FORM = {"assign_ref": "assign"}
CONTEXTS = ["plain", "loop", "matcharm", "closure", "ifelse"]
PRE = '''import "std/io";
type In struct { .X: i32, .Q: [2]i32 };
type P struct { .X: i32, .In: In, .Q: [2]i32 };
fn (p: &'P) Bump() { p.X = p.X + 1; }
fn (p: &'In) Bump() { p.X = p.X + 1; }
fn takeP(r: &'P) { r.X = 1; }
fn takeIn(r: &'In) { r.X = 1; }
fn takeI(r: &'i32) { }
fn mkIn() -> In { return { .X = 2, .Q = [3, 4] } as In; }
fn mk() -> P { return { .X = 1, .In = mkIn(), .Q = [5, 6] } as P; }
fn fails() -> str ! i32 { return "e"!; }
fn one() -> i32 { return 1; }
type Label str;
fn takeS(r: &'str) { }
'''


def place(path):
    return path if path.startswith("(") else "v" + path


def stmt(path, ty, form):
    pl = place(path)
    new = {"P": "mk()", "In": "mkIn()", "i32": "7"}[ty]
    take = {"P": "takeP", "In": "takeIn", "i32": "takeI"}[ty]
    if form == "assign": return "%s = %s;" % (pl, new)
    if form == "assign_ref":      # the right-hand side is a reference value (auto-dereferenced by the compiler)
        src = {"P": "srcP", "In": "srcIn", "i32": "srcI"}[ty]
        return "%s = &%s;" % (pl, src)
    if form == "compound": return "%s += 1;" % pl if ty == "i32" else None
    if form == "incdec": return "%s++;" % pl if ty == "i32" else None
    if form == "mutborrow": return "let rr: &'%s = &'%s;" % (ty, pl)
    if form == "passmut": return "%s(&'%s);" % (take, pl)
    if form == "mutmethod": return "%s.Bump();" % pl if ty in ("P", "In") else None


def wrap(st, ctx):
    if ctx == "plain": return "        " + st
    if ctx == "loop": return "        let n: i32 = 0;\n        while n < 1 {\n            n = n + 1;\n            %s\n        }" % st
    if ctx == "matcharm": return "        match one() {\n            1 => { %s }\n            _ => { }\n        }" % st
    if ctx == "ifelse": return "        if one() == 2 { } else { %s }" % st
    if ctx == "closure": return "        let cl := fn() {\n            %s\n        };\n        cl();" % st
    raise ValueError(ctx)


def program(root, path, ty, form, ctx):
    st = stmt(path, ty, form)
    if st is None: return None
    if path == "" and form in ("mutborrow", "passmut", "assign_ref") and root.endswith(("_ref", "_mut")):
        return None      # `&'v` of a variable that already is a reference / `v = &x` rebinding it: not a mutation of the referent
    SRC = "    let srcI: i32 = 3;\n    let srcIn: In = mkIn();\n    let srcP: P = mk();\n"
    if root.endswith("_h"):
        hold = "    let a0: P = mk();\n    let a1: P = mk();\n    let b0: P = mk();\n    let b1: P = mk();\n"
        lit = "{ .R = &a0, .M = &'b0, .RS = [&a0, &a1], .MS = [&'b1] } as HH"
        body = SRC + wrap(st, ctx)
        pre = PRE + HOLDER_PRE
        if root == "let_h": return pre + "fn main() {\n" + hold + "    let v: HH = " + lit + ";\n%s\n}\n" % body
        if root == "const_h": return pre + "fn main() {\n" + hold + "    const v: HH = " + lit + ";\n%s\n}\n" % body
        if root == "local_mut_h": return pre + "fn main() {\n" + hold + "    let h: HH = " + lit + ";\n    let v: &'HH = &'h;\n%s\n}\n" % body
        if root.startswith("param"):
            pt = {"param_val_h": "HH", "param_ref_h": "&HH", "param_mut_h": "&'HH"}[root]
            arg = {"param_val_h": "h", "param_ref_h": "&h", "param_mut_h": "&'h"}[root]
            return pre + "fn f(v: %s) {\n%s\n}\nfn main() {\n%s    let h: HH = %s;\n    f(%s);\n}\n" % (pt, body, hold, lit, arg)
        if root == "recv_mut_h":
            return pre + "fn (v: &'HH) Run() {\n%s\n}\nfn main() {\n%s    let h: HH = %s;\n    h.Run();\n}\n" % (body, hold, lit)
        raise ValueError(root)
    if root.startswith("forindex") and root != "forindex_map":
        if path != "" or form == "mutmethod": return None
        st = st.replace("mk()", "7").replace("takeP", "takeI").replace("&'P", "&'i32").replace("&srcP", "&srcI")
        head = {"forindex": "    let d: []i32 = [1, 2];\n    for v, e in d {", "forindex_str": "    for v, e in \"ab\" {",
                "forindex_named_str": "    let lb: Label = \"ab\" as Label;\n    for v, e in lb {", "forindex_range": "    let lo: i32 = 0;\n    let hi: i32 = 2;\n    for v, e in lo..hi {"}[root]
        return PRE + "fn main() {\n" + SRC + head + "\n%s\n    }\n}\n" % wrap(st, ctx)
    if root == "forindex_map":      # the key variable of a two-variable loop over a map
        if path != "" or form in ("mutmethod", "compound", "incdec"): return None
        st = st.replace("mk()", "\"z\"").replace("takeP", "takeS").replace("&'P", "&'str").replace("&srcP", "&srcS")
        return PRE + "fn main() {\n    let srcS: str = \"q\";\n    let mm := {\"a\" => 1} as map[str]i32;\n    for v, e in mm {\n%s\n    }\n}\n" % wrap(st, ctx)
    if root == "catcherr":
        if path != "" or form in ("mutmethod", "compound", "incdec"): return None
        st = st.replace("mk()", "\"z\"").replace("takeP", "takeS").replace("&'P", "&'str").replace("&srcP", "&srcS")
        return PRE + "fn main() {\n    let srcS: str = \"q\";\n    fails() catch v {\n%s\n        return;\n    };\n}\n" % wrap(st, ctx)
    body = SRC.replace("    ", "        ", 0) + wrap(st, ctx)
    if root == "let": return PRE + "fn main() {\n    let v: P = mk();\n%s\n}\n" % body
    if root == "const": return PRE + "fn main() {\n    const v: P = mk();\n%s\n}\n" % body
    if root.startswith("param"):
        pt = {"param_val": "P", "param_ref": "&P", "param_mut": "&'P"}[root]
        arg = {"param_val": "a", "param_ref": "&a", "param_mut": "&'a"}[root]
        return PRE + "fn f(v: %s) {\n%s\n}\nfn main() {\n    let a: P = mk();\n    f(%s);\n}\n" % (pt, body, arg)
    if root.startswith("recv"):
        rt = {"recv_val": "P", "recv_ref": "&P", "recv_mut": "&'P"}[root]
        return PRE + "fn (v: %s) M() {\n%s\n}\nfn main() {\n    let a: P = mk();\n    a.M();\n}\n" % (rt, body)
    if root == "local_ref": return PRE + "fn main() {\n    let a: P = mk();\n    let v: &P = &a;\n%s\n}\n" % body
    if root == "local_mut": return PRE + "fn main() {\n    let a: P = mk();\n    let v: &'P = &'a;\n%s\n}\n" % body


MUT_ERRORS = ("cannot assign through immutable", "cannot assign to constant", "cannot modify read-only", "cannot modify through immutable", "cannot take mutable reference of a read-only",
              "cannot take reference of this expression", "cannot take reference of a reference")


def main():
    tier = os.environ.get("VERIF_TIER", "quick")
    rep = Report(PID)
    try:
        build_ferret(); fvdriver()
    except BuildError as e:
        log(str(e))
        rep.fail("tie:build", "compiler / driver no longer builds (tie broken)", {"kind": "broken-obligation", "detail": str(e)[-2000:]}, no_input=True)
        write_evidence(PID, "proof", {"obligations": 1, "discharged": 0, "checker_cmd": "lake build", "trusted_base": []}, violations=1)
        return rep.finish()
    cases = []
    for r in ROOTS:
        for (path, letters, ty) in PATHS:
            for f in FORMS:
                for ctx in CONTEXTS:
                    # closures capture by reference; a closure context for parameters of reference type is kept too
                    p = program(r, path, ty, f, ctx)
                    if p: cases.append((r, path, letters, ty, f, ctx, p))
    refplace = {}
    for r in HOLDER_ROOTS:
        for (path, letters, ty, rp) in HOLDER_PATHS:
            for f in FORMS:
                if rp and f in ("assign_ref", "mutborrow", "passmut"): continue   # `v.R = &x` (rebinding or write-through) and `&'` of a place that already is a reference are not the property's concern
                for ctx in CONTEXTS:
                    p = program(r, path, ty, f, ctx)
                    if p:
                        cases.append((r, path, letters, ty, f, ctx, p)); refplace[(r, path)] = rp
    if tier == "quick":
        rng = SplitMix64(seed() * 2654435761 + 6)
        cases = [c for c in cases if c[5] == "plain" or rng.below(3) == 0]
    model = run_driver(["mut"], "".join("%s %s %s\n" % (MODEL_ROOT.get(c[0], c[0]), c[2], MODEL_FORM.get(c[4], c[4])) for c in cases)).split("\n")
    res = run_many([{"files": {"main.fer": c[6]}, "mode": "check"} for c in cases])
    diffs, st = [], {"cases": len(cases), "rejected": 0, "accepted": 0, "other_errors": 0, "immutable_roots": 0}
    for c, m, r in zip(cases, model, res):
        root, path, letters, ty, f, ctx, text = c
        mrej, immut = [x == "true" for x in m.split()]
        errs = [d[2] for d in r.diags if d[0] == "error"]
        mut_err = [e for e in errs if any(k in e for k in MUT_ERRORS)]
        other = [e for e in errs if e not in mut_err]
        key = "%s|%s|%s|%s" % (root, path or "v", f, ctx)
        if r.compile_rc not in (0, 1) or other:
            st["other_errors"] += 1
            rep.fail("other:" + key, "mutation case %s: unrelated failure: %s" % (key, (other or [strip_ansi(r.compile_out)[-200:]])[0][:160]),
                     {"kind": "input", "files": {"main.fer": text}, "observed": strip_ansi(r.compile_out)[-600:]}, no_input=False)
            continue
        rejected = bool(mut_err)
        st["rejected" if rejected else "accepted"] += 1
        if immut: st["immutable_roots"] += 1
        if rejected != mrej and len(diffs) < 30:
            diffs.append({"case": key, "compiler_rejects": rejected, "model_rejects": mrej, "message": (mut_err or [""])[0][:80]})
        if immut and not rejected:
            rep.fail("mutated:" + key, "mutation form `%s` of place `%s` rooted in an immutable binding (%s), inside a %s, is ACCEPTED" % (f, place(path), root, ctx),
                     {"kind": "input", "files": {"main.fer": text}, "cmd": "ferret -t main.fer", "expected": "compile error", "observed": "accepted"})
        if not immut and rejected and not (path == "" and f in ("mutborrow", "passmut") and root.endswith(("_ref", "_mut"))) \
                and not (refplace.get((root, path)) and f in ("mutborrow", "passmut")):      # `&'` of a place that already is a reference
            rep.fail("misrejected:" + key, "mutation form `%s` of mutable place `%s` (%s, %s) is rejected: %s" % (f, place(path), root, ctx, mut_err[0][:100]),
                     {"kind": "input", "files": {"main.fer": text}, "cmd": "ferret -t main.fer", "expected": "accepted", "observed": mut_err[0]})

    ok, out = lake_build(["FerretVerif.Props.C06"])
    names = theorem_names("C06")
    axioms, discharged = {}, 0
    if ok:
        axioms, _ = audit_theorems("C06", names)
        for nm in names:
            ax = axioms.get(nm)
            if ax is not None and set(ax) <= ALLOWED_AXIOMS: discharged += 1
            else: rep.fail("axioms:" + nm, "theorem %s missing or depends on unexpected axioms %s" % (nm, ax), {"kind": "broken-obligation", "theorem": nm}, no_input=True)
    else:
        log(out[-3000:])
        rep.fail("proof:C06", "Props/C06.lean no longer builds", {"kind": "broken-obligation", "detail": out[-3000:]}, no_input=True)
    forb = grep_forbidden()
    if forb:
        rep.fail("audit:forbidden", "forbidden construct in Lean sources: %s" % forb[:3], {"kind": "broken-obligation", "hits": forb[:20]}, no_input=True)
    if diffs and not rep.violations and not rep.known_hit:
        rep.fail("tie:mut", "Model/Mut.lean and the type checker disagree on %d cases although the property holds on each" % len(diffs),
                 {"kind": "broken-obligation", "correspondence": "fvdriver mut vs ferret -t", "diffs": diffs}, no_input=True)
    cov = {
        "obligations": len(names), "discharged": discharged,
        "checker_cmd": "cd /verif/lean && lake build FerretVerif.Props.C06 && #print axioms per theorem",
        "trusted_base": ["Lean 4 kernel", "axioms: " + ", ".join(sorted({a for v in axioms.values() if v for a in v})), "program templates per (root, path, form, context)", "diagnostic text classes"],
        "theorems": [{"name": nm, "axioms": axioms.get(nm)} for nm in names],
        "evaluations": len(cases), "distinct_nontrivial": st["immutable_roots"],
        "rule": "HOLDER cases: 7 root kinds of a struct whose fields / array elements are `&T` and `&'T` references x 14 places reached through such a held reference (at the end, in the middle of the path, parenthesised) x forms x contexts; product of 16 root kinds (incl. two-variable loops over array, string, named string type, range, map key) x 9 access paths (ident, field chains, indices, parentheses, depth <= 3) x 7 mutation forms (assignment also with a reference-typed right-hand side) x 5 contexts (plain, loop, match arm, closure, else branch); "
                "thorough = the whole product, quick = all plain-context cases + a seeded third of the others; non-trivial = cases rooted in an immutable binding",
        "exhaustive": tier != "quick",
        "samples": ["%s|%s|%s|%s" % (c[0], c[1] or "v", c[4], c[5]) for c in cases[7:len(cases):max(1, len(cases) // 8)]],
        "model_vs_code_diffs": diffs[:10], "stats": st,
    }
    write_evidence(PID, "proof", cov, assumptions=["`&'v` on a variable that already is a reference is refused for another reason (reference of a reference) and is not counted as a mis-rejection"],
                   violations=len(rep.violations))
    return rep.finish()


if __name__ == "__main__":
    sys.exit(main())
