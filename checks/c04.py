"""C04 — fixed-size array accesses are in bounds and hit the indexed element.
Theorems: Props/C04.lean (static check of constant indices exact; run-time normalisation; in-bounds).
Tie: generated programs indexing fixed arrays with literal, const, let-bound, arithmetic, reassigned,
branch-dependent and loop-carried indices (reads and writes).  A program the compiler ACCEPTS must behave as the
Lean reference interpreter says (right element, or panic when out of range); rejections are not violations."""
import os, sys, json, hashlib
sys.path.insert(0, os.path.join(os.path.dirname(os.path.abspath(__file__)), "..", "lib"))
from common import *
from wholeprog import *
from coredsl import *

PID = "C04"


def prog(rng, kind):
    n = 2 + rng.below(4)
    t = rng.choice(["i32", "i64", "u8", "i16"])
    vals = [10 * (k + 1) + rng.below(9) for k in range(n)]
    body = [Let("a", TA(n, t), ALit(*[I(t, v) for v in vals]))]
    valid = lambda: rng.below(2 * n) - n
    if kind == "literal":
        for _ in range(3):
            i = valid(); body.append(Print(Idx(V("a"), I("i32", i))))
        i = valid(); body += [Set(Idx(V("a"), I("i32", i)), I(t, 99)), Print(Idx(V("a"), I("i32", i)))]
        for k in range(n): body.append(Print(Idx(V("a"), I("i32", k))))
    elif kind == "const":
        i, j = valid(), valid()
        body += [Const("k", "i32", I("i32", i)), Print(Idx(V("a"), V("k"))), Const("m", "i32", I("i32", j)),
                 Set(Idx(V("a"), V("m")), I(t, 77)), Print(Idx(V("a"), V("m"))), Print(Idx(V("a"), V("k")))]
    elif kind == "let":
        i = valid()
        body += [Let("k", "i32", I("i32", i)), Print(Idx(V("a"), V("k"))), Set(Idx(V("a"), V("k")), I(t, 55)), Print(Idx(V("a"), V("k")))]
    elif kind == "arith":
        i = rng.below(n - 1)
        body += [Const("k", "i32", I("i32", i)), Print(Idx(V("a"), Bin("add", "i32", V("k"), I("i32", 1)))),
                 Print(Idx(V("a"), Bin("sub", "i32", V("k"), I("i32", 1)))) if i >= 1 - n + 1 else Print(I("i32", 0))]
    elif kind == "oob-literal":
        i = rng.choice([n, n + 1, -n - 1, 100])
        body += [Print(I("i32", 1)), Print(Idx(V("a"), I("i32", i))) if rng.below(2) else Set(Idx(V("a"), I("i32", i)), I(t, 1)), Print(I("i32", 2))]
    elif kind == "oob-const":
        i = rng.choice([n, -n - 1])
        body += [Const("k", "i32", I("i32", i)), Print(I("i32", 1)), Print(Idx(V("a"), V("k"))), Print(I("i32", 2))]
    elif kind == "reassigned":
        i, j = valid(), valid()
        body += [Let("k", "i32", I("i32", i)), Print(Idx(V("a"), V("k"))), Set(V("k"), I("i32", j)), Print(Idx(V("a"), V("k"))),
                 Set(Idx(V("a"), V("k")), I(t, 33)), Print(Idx(V("a"), V("k")))]
    elif kind == "branch":
        i, j = rng.below(n), rng.below(n)
        body += [Let("k", "i32", I("i32", i)), If(Call("flag", I("i32", rng.below(2))), [Set(V("k"), I("i32", j))]), Print(Idx(V("a"), V("k")))]
    elif kind == "loop":
        body += [Let("k", "i32", I("i32", 0)), Let("w", "i32", I("i32", 0)),
                 While(Bin("lt", "i32", V("w"), I("i32", n)), Print(Idx(V("a"), V("k"))), Set(V("k"), Bin("add", "i32", V("k"), I("i32", 1))), Inc("i32", V("w")))]
    elif kind == "arith-reassigned":
        i, j = rng.below(n - 1), rng.below(n - 1)
        body += [Let("k", "i32", I("i32", i)), Print(Idx(V("a"), Bin("add", "i32", V("k"), I("i32", 1)))), Set(V("k"), I("i32", j)),
                 Print(Idx(V("a"), Bin("add", "i32", V("k"), I("i32", 1))))]
    elif kind == "incdec":
        i = rng.below(n - 1)
        body += [Let("k", "i32", I("i32", i)), Print(Idx(V("a"), V("k"))), Inc("i32", V("k")), Print(Idx(V("a"), V("k")))]
    elif kind == "opaque":
        body += [Print(Idx(V("a"), Call("ix", I("i32", valid()))))]
    elif kind == "struct-field-array":
        body = [Let("q", TA(n, t), ALit(*[I(t, v) for v in vals])), Let("s", TS("H"), SLit("H", A=I("i32", 5), Q=V("q"), B=I("i32", 6))),
                Set(Idx(Fld(V("s"), "Q"), I("i32", valid())), I(t, 44))] + [Print(Idx(Fld(V("s"), "Q"), I("i32", k))) for k in range(n)] + \
               [Print(Fld(V("s"), "A")), Print(Fld(V("s"), "B"))]
        return Prog(Struct("H", ("A", "i32"), ("Q", TA(n, t)), ("B", "i32")), Main(*body))
    return Prog(Fn("flag", [("b", "i32")], "bool", Ret(Bin("eq", "i32", V("b"), I("i32", 1)))), Fn("ix", [("k", "i32")], "i32", Ret(V("k"))), Main(*body))


def randprog(rng):
    """index-dataflow program.  `s*` variables are never changed (reads through them, through lets derived from them and through
    in-range literals are compile-time constant and must be accepted and hit the right element); `k*` variables are changed by
    =, +=, -=, ++, -- inside branches and loops and index WRITES (run-time checked: a value outside [-N,N) must panic).  At most one
    `risky` read goes through a changing variable or a let derived from one: the compiler may reject it, but if it accepts, the value
    at that moment counts.  The array sits between two guard arrays printed at the end (a stray write shows as a changed neighbour)."""
    n = 2 + rng.below(4)
    t = rng.choice(["i32", "i32", "i64", "u8", "i16"])
    vals = [10 * (k + 1) + rng.below(9) for k in range(n)]
    body = [Let("lo", TA(2, "i32"), ALit(I("i32", 1), I("i32", 2))), Let("a", TA(n, t), ALit(*[I(t, v) for v in vals])), Let("hi", TA(2, "i32"), ALit(I("i32", 3), I("i32", 4)))]
    stable, moving = {}, []
    for j in range(1 + rng.below(2)):
        v = rng.below(2 * n) - n
        stable["s%d" % j] = v
        body.append(Const("s%d" % j, "i32", I("i32", v)) if rng.below(3) == 0 else Let("s%d" % j, "i32", I("i32", v)))
    for j in range(1 + rng.below(2)):
        body.append(Let("k%d" % j, "i32", I("i32", rng.below(2 * n) - n))); moving.append("k%d" % j)
    cnt = [0]
    risky = [rng.below(100) < 45]
    mderived = []            # lets derived from moving variables that are in scope

    def inrange(v): return -n <= v < n

    def safe_idx():
        r = rng.below(5)
        if r == 0: return I("i32", rng.below(2 * n) - n)
        name = rng.choice(sorted(stable))
        v = stable[name]
        if r == 1 and inrange(v + 1): return Bin("add", "i32", V(name), I("i32", 1))
        if r == 2 and inrange(v - 1): return Bin("sub", "i32", V(name), I("i32", 1))
        return V(name)

    def moving_idx():
        r = rng.below(16)
        v = V(rng.choice(moving + mderived))
        if r < 9: return v
        if r < 12: return Bin("add", "i32", v, I("i32", 1))
        if r < 15: return Bin("sub", "i32", v, I("i32", 1))
        return Call("ix", v)          # opaque: the compiler refuses it for fixed arrays

    def mutate():
        # `k = k +- c` and `k = literal` keep the variable a walk-time constant (writes through it stay accepted and are checked at
        # run time); compound assignments and ++/-- make it non-constant for the analysis
        name = rng.choice(moving)
        k = V(name)
        r = rng.below(14)
        if r < 2: return Set(k, I("i32", rng.below(2 * n + 3) - n - 1))
        if r < 6: return Set(k, Bin("add", "i32", k, I("i32", 1 + rng.below(2))))
        if r < 10: return Set(k, Bin("sub", "i32", k, I("i32", 1 + rng.below(3))))
        if r == 10: return OpSet("add", "i32", k, I("i32", 1 + rng.below(2)))
        if r == 11: return OpSet("sub", "i32", k, I("i32", 1 + rng.below(2)))
        if r == 12: return Inc("i32", k)
        return Dec("i32", k)

    def derive(src_pool, table=None):
        cnt[0] += 1
        name = "m%d" % cnt[0]
        sname = rng.choice(src_pool)
        src = V(sname)
        d = rng.choice([0, 1, -1])
        if table is not None and not inrange(table[sname] + d): d = 0
        e = src if d == 0 else Bin("add" if d > 0 else "sub", "i32", src, I("i32", 1))
        if table is not None: table[name] = table[sname] + d
        return name, (Let(name, "i32", e) if rng.below(2) else LetInfer(name, e))

    def write():
        ix = moving_idx() if rng.below(3) else safe_idx()
        if rng.below(3): return Set(Idx(V("a"), ix), I(t, 50 + rng.below(40)))
        return OpSet("add", t, Idx(V("a"), ix), I(t, 1 + rng.below(5)))

    def stmts(depth, k, in_loop=False):
        out, local_s, local_m = [], [], []
        for _ in range(k):
            r = rng.below(12)
            if r < 2: out.append(Print(Idx(V("a"), safe_idx())))
            elif r < 4: out.append(write())
            elif r < 6: out.append(mutate())
            elif r < 7:
                name, st = derive(sorted(stable), stable); out.append(st); local_s.append(name)
                out.append(Print(Idx(V("a"), V(name))))
            elif r < 8:
                name, st = derive(moving); out.append(st); mderived.append(name); local_m.append(name)
                out.append(write())
            elif r < 9 and risky[0]:
                risky[0] = False
                out.append(Print(Idx(V("a"), moving_idx())))
            elif r < 10 and depth < 2:
                out.append(If(Call("flag", I("i32", rng.below(2))), stmts(depth + 1, 1 + rng.below(3), in_loop), stmts(depth + 1, rng.below(2), in_loop)))
            elif depth < 2:
                cnt[0] += 1
                w = "w%d" % cnt[0]
                inner = []
                if risky[0] and rng.below(2):
                    # the loop shape that exposes stale constants: derive from a changing variable, read through it, then change it
                    risky[0] = False
                    name, st = derive(moving)
                    inner += [st, Print(Idx(V("a"), V(name)))]
                inner += stmts(depth + 1, 1 + rng.below(3), True) + [mutate()]
                out += [Let(w, "i32", I("i32", 0)), While(Bin("lt", "i32", V(w), I("i32", 1 + rng.below(5))), *(inner + [Inc("i32", V(w))]))]
            else:
                out.append(write())
        for nm in local_s: stable.pop(nm, None)
        for nm in local_m:
            if nm in mderived: mderived.remove(nm)
        return out

    body += stmts(0, 3 + rng.below(5))
    body += [Print(Idx(V("lo"), I("i32", 0))), Print(Idx(V("lo"), I("i32", 1)))] + [Print(Idx(V("a"), I("i32", k))) for k in range(n)] + \
            [Print(Idx(V("hi"), I("i32", 0))), Print(Idx(V("hi"), I("i32", 1)))] + [Print(V(v)) for v in moving]
    return Prog(Fn("flag", [("b", "i32")], "bool", Ret(Bin("eq", "i32", V("b"), I("i32", 1)))), Fn("ix", [("k", "i32")], "i32", Ret(V("k"))), Main(*body))


def walkprog(rng):
    """an index that WALKS: start x step x iterations x how the variable is changed (k = k +- d, k += d, k -= d, k++, k--) x where
    (before / after the access) x access through k itself or through a let derived from k inside the loop x read / write / compound
    write.  The trajectory crosses the upper bound, the lower bound (-N) or stays inside; guard arrays around `a` expose stray stores."""
    n = 2 + rng.below(4)
    t = rng.choice(["i32", "i32", "i64", "u8"])
    vals = [10 * (k + 1) + rng.below(9) for k in range(n)]
    start = rng.below(2 * n) - n
    d = 1 + rng.below(3)
    up = rng.below(2) == 0
    iters = 1 + rng.below(2 * n + 2)
    form = rng.below(4) if d > 1 else rng.below(5)
    k = V("k")
    if form == 0: mut = Set(k, Bin("add" if up else "sub", "i32", k, I("i32", d)))
    elif form == 1: mut = OpSet("add" if up else "sub", "i32", k, I("i32", d))
    elif form == 2: mut = Set(k, Bin("add", "i32", k, I("i32", d if up else -d)))
    elif form == 3: mut = OpSet("add", "i32", k, I("i32", d if up else -d))
    else: mut = Inc("i32", k) if up else Dec("i32", k)
    via = rng.below(3)          # 0: a[k]; 1: let m := k + c; a[m]; 2: a[k + c]
    c = rng.below(3) - 1
    if via == 0: pre, ix = [], k
    elif via == 1:
        e = k if c == 0 else Bin("add" if c > 0 else "sub", "i32", k, I("i32", 1))
        pre, ix = [Let("m", "i32", e) if rng.below(2) else LetInfer("m", e)], V("m")
    else: pre, ix = [], (k if c == 0 else Bin("add" if c > 0 else "sub", "i32", k, I("i32", 1)))
    acc = rng.below(4)
    if acc == 0: access = [Print(Idx(V("a"), ix))]
    elif acc == 1: access = [Set(Idx(V("a"), ix), I(t, 90 + rng.below(9)))]
    elif acc == 2: access = [OpSet("add", t, Idx(V("a"), ix), I(t, 1 + rng.below(4)))]
    else: access = [Let("v", t, Idx(V("a"), ix)), Print(V("v"))]
    inner = pre + ([mut] + access if rng.below(4) == 0 else access + [mut])
    if rng.below(4) == 0:
        inner = [If(Call("flag", I("i32", 1)), inner)]
    body = [Let("lo", TA(2, "i32"), ALit(I("i32", 1), I("i32", 2))), Let("a", TA(n, t), ALit(*[I(t, v) for v in vals])), Let("hi", TA(2, "i32"), ALit(I("i32", 3), I("i32", 4))),
            Let("k", "i32", I("i32", start)), Let("w", "i32", I("i32", 0)),
            While(Bin("lt", "i32", V("w"), I("i32", iters)), *([Print(V("k"))] + inner + [Set(V("w"), Bin("add", "i32", V("w"), I("i32", 1)))])),
            Print(Idx(V("lo"), I("i32", 0))), Print(Idx(V("lo"), I("i32", 1)))] + [Print(Idx(V("a"), I("i32", j))) for j in range(n)] + \
           [Print(Idx(V("hi"), I("i32", 0))), Print(Idx(V("hi"), I("i32", 1)))]
    return Prog(Fn("flag", [("b", "i32")], "bool", Ret(Bin("eq", "i32", V("b"), I("i32", 1)))), Main(*body))



def raw_cases(rng, tier):
    """Ferret text programs outside the Core DSL: index arithmetic on UNSIGNED variables at the wrap-around boundary, a parameter shadowing a
    module-level constant, casts in the index.  -> (name, text, true index or None, array values)"""
    out = []
    for q in range(12 if tier == "quick" else 120):
        t = rng.choice(["u8", "u16", "u32", "u32"])
        bits = int(t[1:]); m = 1 << bits
        n = 2 + rng.below(4)
        vals = [10 * (j + 1) + rng.below(9) for j in range(n)]
        op = rng.choice(["-", "+", "*"])
        if op == "-": k, c = rng.below(3), 1 + rng.below(3)
        elif op == "+": k, c = m - 1 - rng.below(3), 1 + rng.below(4)
        else: k, c = (m // 2) + rng.below(3), 2
        true = {"-": k - c, "+": k + c, "*": k * c}[op] % m
        decl = rng.choice(["let", "const"])
        text = 'import "std/io";\nfn main() {\n    let a: [%d]i32 = [%s];\n    %s k: %s = %d;\n    io::Println(1);\n    io::Println(a[k %s %d]);\n    io::Println(2);\n}\n' % (n, ", ".join(map(str, vals)), decl, t, k, op, c)
        out.append(("unsigned-%s-%s" % (t, {"-": "sub", "+": "add", "*": "mul"}[op]), text, true, vals))
    for q in range(4 if tier == "quick" else 24):
        n = 3 + rng.below(3); vals = [10 * (j + 1) + rng.below(9) for j in range(n)]
        cv, pv = rng.below(n), rng.below(n)
        text = 'import "std/io";\nconst N: i32 = %d;\nfn get(a: [%d]i32, N: i32) -> i32 { return a[N]; }\nfn main() {\n    let a: [%d]i32 = [%s];\n    io::Println(1);\n    io::Println(get(a, %d));\n    io::Println(2);\n}\n' % (cv, n, n, ", ".join(map(str, vals)), pv)
        out.append(("param-shadows-const", text, pv, vals))
    for t in ["u8", "u16", "u32", "u64"]:               # every (target type, operand) pair: the buggy folds need a small negative operand AND an array long enough
        m = 1 << int(t[1:])
        for v in [-1, -2, -3, -100, -(m // 2) + 1, -(m // 2), m - 1, 1, 0, (-m + 1) if t != "u64" else -5]:
            n = 3 + rng.below(3); vals = [10 * (j + 1) + rng.below(9) for j in range(n)]
            true = v % m
            text = 'import "std/io";\nfn main() {\n    let a: [%d]i32 = [%s];\n    io::Println(1);\n    io::Println(a[(%d) as %s]);\n    io::Println(2);\n}\n' % (n, ", ".join(map(str, vals)), v, t)
            out.append(("cast-index-%s" % t, text, true, vals))
            if tier != "quick" or v in (-1, -2):
                text2 = 'import "std/io";\nfn main() {\n    let a: [%d]i32 = [%s];\n    let c: %s = (%d) as %s;\n    io::Println(1);\n    io::Println(a[c]);\n    io::Println(2);\n}\n' % (n, ", ".join(map(str, vals)), t, v, t)
                out.append(("cast-let-index-%s" % t, text2, true, vals))
    trunc_div = lambda a, b: abs(a) // abs(b) * (1 if (a < 0) == (b < 0) else -1)
    for (k, op, c) in [(-7, "%", 3), (-7, "/", 2), (7, "%", -3), (-9, "%", 4), (-1, "/", 2), (-8, "/", 3), (-5, "%", 5), (9, "/", -4), (-128, "/", -64), (-6, "%", -4)]:
        t = rng.choice(["i32", "i64", "i8", "i16"])
        n = 5; vals = [10 * (j + 1) + rng.below(9) for j in range(n)]
        q = trunc_div(k, c)
        true = q if op == "/" else k - q * c
        decl = rng.choice(["let", "const"])
        text = 'import "std/io";\nfn main() {\n    let a: [%d]i32 = [%s];\n    %s k: %s = %d;\n    io::Println(1);\n    io::Println(a[k %s %s]);\n    io::Println(2);\n}\n' % (n, ", ".join(map(str, vals)), decl, t, k, op, "(%d)" % c if c < 0 else c)
        out.append(("signed-%s" % {"/": "div", "%": "rem"}[op], text, true, vals))
    for lit, v in [("010", 10), ("0x0a", 10), ("-0b11", -3), ("0o7", 7), ("1_0", 10), ("-012", -12), ("0b1000", 8), ("007", 7), ("0X0B", 11)]:
        n = 12; vals = [100 + j for j in range(n)]
        out.append(("literal-base", 'import "std/io";\nfn main() {\n    let a: [%d]i32 = [%s];\n    io::Println(1);\n    io::Println(a[%s]);\n    io::Println(2);\n}\n' % (n, ", ".join(map(str, vals)), lit), v, vals))
        out.append(("literal-base-let", 'import "std/io";\nfn main() {\n    let a: [%d]i32 = [%s];\n    let k: i32 = %s;\n    io::Println(1);\n    io::Println(a[k]);\n    io::Println(2);\n}\n' % (n, ", ".join(map(str, vals)), lit), v, vals))
    return out


def check_raw(rep, rng, tier, st):
    cases = raw_cases(rng, tier)
    res = run_many([{"files": {"main.fer": c[1]}, "mode": "run", "timeout": 30} for c in cases])
    st["raw"] = {"cases": len(cases), "accepted": 0, "rejected": 0}
    for (name, text, true, vals), r in zip(cases, res):
        n = len(vals)
        if os.environ.get("VERIF_DEBUG"): log("raw %s true=%s n=%d rc=%s lines=%s run=%s" % (name, true, n, r.compile_rc, r.lines, r.run_rc))
        key = "raw:%s:%s" % (name, hashlib.sha1(text.encode()).hexdigest()[:10])
        rp = {"kind": "input", "files": {"main.fer": text}, "true_index": true, "cmd": "ferret -o out main.fer && ./out"}
        if r.compile_rc not in (0, 1):
            rep.fail("crash:" + key, "compiler crashed on %s" % name, rp); continue
        if r.compile_rc == 1:
            st["raw"]["rejected"] += 1
            codes = [d[1] for d in r.diags if d[0] == "error"]
            if -n <= true < n and codes and all(c == "T0009" for c in codes):
                rep.fail("misreject:" + key, "index arithmetic whose run-time value is %d (in range of the %d-element array) is rejected as out of bounds: %s" % (true, n, [d[2][:80] for d in r.diags][:1]), rp)
            continue
        st["raw"]["accepted"] += 1
        if -n <= true < n:
            want, wantrc = ["1", str(vals[true]), "2"], 0
            if r.lines != want or r.run_rc != 0:
                rep.fail("wrong:" + key, "accepted program (%s): the index has the value %d, the program prints %s (exit %s), expected %s" % (name, true, r.lines, r.run_rc, want), dict(rp, expected=want, observed=r.lines))
        else:
            if r.run_rc == 0 or r.lines != ["1"]:
                rep.fail("oob:" + key, "accepted program (%s): the index has the value %d, outside the %d-element array, yet the access is neither rejected nor stopped by a panic: prints %s (exit %s)" % (name, true, n, r.lines, r.run_rc),
                         dict(rp, expected="compile error or panic after printing 1", observed=r.lines))


KINDS = ["literal", "const", "let", "arith", "oob-literal", "oob-const", "reassigned", "branch", "loop", "arith-reassigned", "incdec", "opaque", "struct-field-array", "random", "walk"]
# regression witnesses of F2 (fixed in /repo 7f48bdd): flow-insensitive constant propagation of `let` indices
KNOWN = {
    "branch-dependent-index": Prog(Fn("flag", [], "bool", Ret(B(True))), Main(Let("a", TA(3, "i32"), ALit(I("i32", 10), I("i32", 20), I("i32", 30))), Let("i", "i32", I("i32", 0)),
                                                                               If(Not(Call("flag")), [Set(V("i"), I("i32", 2))]), Print(Idx(V("a"), V("i"))))),
    "loop-carried-index": Prog(Main(Let("a", TA(3, "i32"), ALit(I("i32", 10), I("i32", 20), I("i32", 30))), Let("i", "i32", I("i32", 0)), Let("w", "i32", I("i32", 0)),
                                    While(Bin("lt", "i32", V("w"), I("i32", 3)), Print(Idx(V("a"), V("i"))), Set(V("i"), Bin("add", "i32", V("i"), I("i32", 1))), Inc("i32", V("w"))))),
}


def main():
    tier = os.environ.get("VERIF_TIER", "quick")
    rep = Report(PID)
    rng = SplitMix64(seed() * 32452867 + 4)
    try:
        build_ferret(); fvdriver()
    except BuildError as e:
        log(str(e))
        rep.fail("tie:build", "compiler / driver no longer builds (tie broken)", {"kind": "broken-obligation", "detail": str(e)[-2000:]}, no_input=True)
        write_evidence(PID, "proof", {"obligations": 1, "discharged": 0, "checker_cmd": "lake build", "trusted_base": []}, violations=1)
        return rep.finish()
    n = 10 if tier == "quick" else 120
    progs, meta = [], []
    for kind in KINDS:
        for _ in range(n * 20 if kind in ("random", "walk") else n):
            progs.append(randprog(rng) if kind == "random" else walkprog(rng) if kind == "walk" else prog(rng, kind)); meta.append(kind)
    names = list(KNOWN)
    progs += [KNOWN[k] for k in names]; meta += ["known:" + k for k in names]
    ms = model_run(progs)
    res = run_many([{"files": {"main.fer": m.get("text", "")}, "mode": "run", "timeout": 30} for m in ms])
    st = {k: {"accepted": 0, "rejected": 0, "wrong": 0} for k in KINDS}
    for kind, m, r in zip(meta, ms, res):
        if "text" not in m or m["term"].startswith(("stuck", "fuel")):
            rep.fail("gen-model:" + kind, "program of kind %s not runnable by the reference interpreter: %s" % (kind, m.get("error", m.get("term"))), {"kind": "broken-obligation"}, no_input=True)
            continue
        s = st.get(kind)
        if r.compile_rc == 1 and not r.artifact:
            if s: s["rejected"] += 1
            continue        # rejected at compile time: allowed by the property (constant-index rule / static bounds error)
        c = compare(m, r)
        if s: s["accepted"] += 1
        if c:
            if s: s["wrong"] += 1
            key = ("probe:" + kind[6:]) if kind.startswith("known:") else "prog:%s:%s" % (kind, hashlib.sha1(m["text"].encode()).hexdigest()[:12])
            rep.fail(key, "accepted fixed-array program (%s index) misbehaves: %s" % (kind, c[:200]),
                     {"kind": "input", "files": {"main.fer": m["text"]}, "expected": {"lines": m["lines"], "term": m["term"]}, "observed": {"lines": r.lines[:20], "exit": r.run_rc},
                      "cmd": "ferret -o out main.fer && ./out"})
    check_raw(rep, rng, tier, st)
    # the literal / const kinds must not all be rejected (the check would be vacuous)
    for k in ("literal", "const", "let", "struct-field-array"):
        if st[k]["accepted"] == 0:
            rep.fail("vacuous:" + k, "no program of kind %s is accepted any more" % k, {"kind": "broken-obligation", "correspondence": "c04 generator"}, no_input=True)

    ok, out = lake_build(["FerretVerif.Props.C04"])
    tn = theorem_names("C04")
    axioms, discharged = {}, 0
    if ok:
        axioms, _ = audit_theorems("C04", tn)
        for nm in tn:
            ax = axioms.get(nm)
            if ax is not None and set(ax) <= ALLOWED_AXIOMS: discharged += 1
            else: rep.fail("axioms:" + nm, "theorem %s missing or depends on unexpected axioms %s" % (nm, ax), {"kind": "broken-obligation", "theorem": nm}, no_input=True)
    else:
        log(out[-3000:])
        rep.fail("proof:C04", "Props/C04.lean no longer builds", {"kind": "broken-obligation", "detail": out[-3000:]}, no_input=True)
    cov = {
        "obligations": len(tn), "discharged": discharged,
        "checker_cmd": "cd /verif/lean && lake build FerretVerif.Props.C04 && #print axioms per theorem",
        "trusted_base": ["Lean 4 kernel", "Core/Eval.lean as the oracle", "program generator"],
        "theorems": [{"name": nm, "axioms": axioms.get(nm)} for nm in tn],
        "evaluations": len(progs), "distinct_nontrivial": sum(v["accepted"] for v in st.values()),
        "rule": "%d programs per index kind (%s) over array lengths 2..5 and element types i32/i64/u8/i16, reads and writes, plus the two F2 witnesses; non-trivial = accepted programs (executed and compared)" % (n, ", ".join(KINDS)),
        "samples": [ms[0].get("text", "")[:300]], "by_kind": st,
    }
    write_evidence(PID, "proof", cov, assumptions=["rejecting a program at compile time is never a C04 violation"], violations=len(rep.violations))
    return rep.finish()


if __name__ == "__main__":
    sys.exit(main())
