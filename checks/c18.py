"""C18 — composite values keep every component intact (layout soundness).
Theorems: Props/C18.lean over Model/Layout.lean (any pointer size that is a power of two, any nesting).
Tie: gohook layout (real mir.DataLayout / resultTagOffset) vs fvdriver layout on generated type expressions
(exhaustive to depth 2, random deeper), whole-compiler sentinel programs on both targets, and the heap of the wasm runtime
(runtime.js ferret_alloc under node vs Model/WasmAlloc.lean: blocks inside the memory, pairwise disjoint)."""
import os, sys, json, itertools
sys.path.insert(0, os.path.join(os.path.dirname(os.path.abspath(__file__)), "..", "lib"))
from common import *
from ferretrun import *

PID = "C18"
LEAVES = ["p1", "p2", "p4", "p8", "p16", "p32", "b", "y", "f4", "f8", "f16", "f32", "P", "R", "W", "D", "M", "I0", "I1", "p0"]


def gen_types(rng, tier):
    out = []
    small = ["p1", "p2", "p4", "p8", "p16", "p32", "P", "I1"]
    out += LEAVES
    # depth 1 (exhaustive over the small leaf set)
    for a in small:
        out.append("O " + a)
        for n in (0, 1, 3):
            out.append("A%d %s" % (n, a))
        for b in small:
            out.append("E %s %s" % (a, b))
            out.append("S2 %s %s" % (a, b))
    for a, b, c in itertools.product(small[:6], repeat=3):
        out.append("S3 %s %s %s" % (a, b, c))
    out.append("S0")
    # depth 2: composites of depth-1 composites (exhaustive over a reduced set)
    d1 = ["O p1", "O p8", "O p32", "A3 p2", "E P p4", "E p1 p16", "S2 p1 p8", "S3 p2 p1 p4", "S2 p16 p1", "S0"]
    for x in d1:
        out.append("O " + x)
        out.append("A2 " + x)
        for y in d1:
            out.append("S2 %s %s" % (x, y))
            out.append("E %s %s" % (x, y))
        for l in small[:6]:
            out.append("S3 %s %s %s" % (l, x, l))
    # random deeper
    def rnd(depth):
        r = rng.below(10)
        if depth == 0 or r < 3:
            return rng.choice(LEAVES[:19])
        if r < 5:
            return "O " + rnd(depth - 1)
        if r < 6:
            return "E %s %s" % (rnd(depth - 1), rnd(depth - 1))
        if r < 7:
            return "A%d %s" % (rng.below(5), rnd(depth - 1))
        k = rng.below(6)
        return "S%d%s" % (k, "".join(" " + rnd(depth - 1) for _ in range(k)))
    for _ in range(400 if tier == "quick" else 6000):
        out.append(rnd(4))
    seen, res = set(), []
    for t in out:
        if t not in seen:
            seen.add(t); res.append(t)
    return res


def parse(toks, i=0):
    """type expr -> (tree, next index); tree = (kind, children, n)"""
    t = toks[i]
    if t == "O":
        c, j = parse(toks, i + 1); return ("O", [c], 0), j
    if t == "E":
        a, j = parse(toks, i + 1); b, k = parse(toks, j); return ("E", [a, b], 0), k
    if t[0] == "A" and t[1:].isdigit():
        c, j = parse(toks, i + 1); return ("A", [c], int(t[1:])), j
    if t[0] == "S" and t[1:].isdigit():
        k, j, cs = int(t[1:]), i + 1, []
        for _ in range(k):
            c, j = parse(toks, j); cs.append(c)
        return ("S", cs, k), j
    return ("L", [], t), i + 1


def show(tree):
    k, cs, n = tree
    if k == "L": return n
    if k == "O": return "O " + show(cs[0])
    if k == "E": return "E %s %s" % (show(cs[0]), show(cs[1]))
    if k == "A": return "A%d %s" % (n, show(cs[0]))
    return "S%d%s" % (n, "".join(" " + show(c) for c in cs))


def subterms(tree, acc):
    acc.add(show(tree))
    for c in tree[1]:
        subterms(c, acc)


def is_pow2(x):
    return x >= 1 and x & (x - 1) == 0


# ---------------------------------------------------------------------------- whole-compiler sentinel programs
INTS_NATIVE = ["i8", "i16", "i32", "i64", "u8", "u16", "u32", "u64", "i128", "u128", "i256", "u256"]
INTS_WASM = ["i8", "i16", "i32", "i64", "u8", "u16", "u32", "u64"]


class Prog:
    """A struct type tree with integer leaves; emits a Ferret program that writes sentinels, overwrites each
    leaf in turn and prints everything, then copies the composite; expected output computed here."""

    def __init__(self, rng, ints, idx):
        self.rng, self.ints, self.idx = rng, ints, idx
        self.decls, self.nstruct = [], 0
        self.root = self.mk_struct(2)
        self.leaves = []      # (path, type)
        self.collect(self.root, "s")

    def mk_struct(self, depth):
        self.nstruct += 1
        name = "T%d" % self.nstruct
        fields = []
        for fi in range(2 + self.rng.below(3)):
            r = self.rng.below(10)
            fname = "F%d" % fi
            if depth > 0 and r < 3:
                fields.append((fname, ("struct", self.mk_struct(depth - 1))))
            elif depth > 0 and r < 5:
                n = 2 + self.rng.below(2)
                if self.rng.below(2):
                    fields.append((fname, ("arr", n, ("struct", self.mk_struct(depth - 1)))))
                else:
                    fields.append((fname, ("arr", n, ("int", self.rng.choice(self.ints)))))
            else:
                fields.append((fname, ("int", self.rng.choice(self.ints))))
        self.decls.append("type %s struct { %s };" % (name, ", ".join(".%s: %s" % (f, self.tyname(t)) for f, t in fields)))
        return (name, fields)

    def tyname(self, t):
        if t[0] == "int": return t[1]
        if t[0] == "struct": return t[1][0]
        return "[%d]%s" % (t[1], self.tyname(t[2]))

    def collect(self, st, path):
        for f, t in st[1]:
            self.collect_t(t, "%s.%s" % (path, f))

    def collect_t(self, t, path):
        if t[0] == "int":
            self.leaves.append((path, t[1]))
        elif t[0] == "struct":
            self.collect(t[1], path)
        else:
            for i in range(t[1]):
                self.collect_t(t[2], "%s[%d]" % (path, i))

    def sentinel(self, k, ty, gen):
        v = (k * 37 + gen * 11 + 5) % 120 + 1
        return v

    def build_value(self, t, path, lines, counter):
        """emits lets building the value bottom-up; returns the expression naming it"""
        if t[0] == "int":
            k = [p for p, _ in self.leaves].index(path)
            return str(self.sentinel(k, t[1], 0))
        if t[0] == "struct":
            parts = []
            for f, ft in t[1][1]:
                parts.append(".%s = %s" % (f, self.build_value(ft, "%s.%s" % (path, f), lines, counter)))
            counter[0] += 1
            v = "v%d" % counter[0]
            # keys of a struct literal may come in any order: half of the literals are written permuted
            if self.rng.below(2):
                for i in range(len(parts) - 1, 0, -1):
                    j = self.rng.below(i + 1)
                    parts[i], parts[j] = parts[j], parts[i]
                self.permuted = getattr(self, "permuted", 0) + 1
            lines.append("    let %s: %s = { %s };" % (v, t[1][0], ", ".join(parts)))
            return v
        elems = [self.build_value(t[2], "%s[%d]" % (path, i), lines, counter) for i in range(t[1])]
        counter[0] += 1
        v = "v%d" % counter[0]
        lines.append("    let %s: %s = [%s];" % (v, self.tyname(t), ", ".join(elems)))
        return v

    def render(self):
        lines = ['import "std/io";'] + self.decls + ["fn main() {", "    let guard1: i64 = 1111111;"]
        counter = [0]
        rootv = self.build_value(("struct", self.root), "s", lines, counter)
        lines.append("    let s := %s;" % rootv)
        lines.append("    let guard2: i64 = 2222222;")
        cur = {p: self.sentinel(k, ty, 0) for k, (p, ty) in enumerate(self.leaves)}
        exp = []

        def dump(var, vals):
            for p, ty in self.leaves:
                lines.append("    io::Println(%s);" % (var + p[1:]))
                exp.append(str(vals[p]))
        dump("s", cur)
        order = list(range(len(self.leaves)))
        for step, k in enumerate(order[: 6 if len(order) > 6 else len(order)]):
            p, ty = self.leaves[(k * 5 + self.idx) % len(self.leaves)]
            nv = self.sentinel(k, ty, step + 1)
            lines.append("    %s = %d;" % (p, nv))
            cur[p] = nv
            dump("s", cur)
            lines.append("    io::Println(guard1);"); exp.append("1111111")
            lines.append("    io::Println(guard2);"); exp.append("2222222")
        # copying copies all of it and detaches
        lines.append("    let t := s;")
        tv = dict(cur)
        p, ty = self.leaves[self.idx % len(self.leaves)]
        lines.append("    t%s = 99;" % p[1:])
        tv[p] = 99
        dump("t", tv)
        dump("s", cur)
        lines.append("}")
        return "\n".join(lines) + "\n", exp


def check_wasm_alloc(rep, rng, tier):
    """Lane `wasm-alloc`: the heap of the shipped runtime.js (bind + ferret_alloc over a real WebAssembly.Memory, harness/wallocrun.mjs)
    against Model/WasmAlloc.lean (fvdriver walloc) on generated allocation sequences.  A block whose last byte cannot be written, or two
    blocks that overlap, is a concrete violation (the composite stored there is lost / overwritten); any other difference breaks the tie."""
    n = 400 if tier == "quick" else 6000
    lines = ["1024 1 40000 40000 3 0 70000", "0 1 65536 1", "9 2 7 1 0 131056", "65529 1 1", "65528 1 8 8", "100 3"]
    dist = {"small": 0, "page-crossing": 0, "multi-page": 0, "zero": 0}
    for i in range(n):
        pages = 1 + rng.below(3)
        data_end = rng.below(pages * 65536 - 8)
        sizes = []
        for _ in range(1 + rng.below(24)):
            k = rng.below(10)
            if k == 0:
                sizes.append(0); dist["zero"] += 1
            elif k < 6:
                sizes.append(1 + rng.below(64)); dist["small"] += 1
            elif k < 9:
                sizes.append(1000 + rng.below(70000)); dist["page-crossing"] += 1
            else:
                sizes.append(65536 * (1 + rng.below(4)) + rng.below(9)); dist["multi-page"] += 1
        lines.append("%d %d %s" % (data_end, pages, " ".join(map(str, sizes))))
    text = "".join(l + "\n" for l in lines)
    env = dict(os.environ, VERIF_REPO=REPO)
    r = run(["node", os.path.join(VERIF, "harness", "wallocrun.mjs")], input=text, env=env, timeout=600)
    real = r.stdout.split("\n")
    model = run_driver(["walloc"], text).split("\n")
    stats = {"sequences": len(lines), "allocations": sum(len(l.split()) - 2 for l in lines), "size_classes": dist, "grown": 0, "diffs": 0}
    if r.returncode != 0 or len(real) < len(lines):
        rep.fail("tie:walloc:harness", "the runtime.js heap harness no longer runs against the tree: %s" % (r.stderr or "")[-300:],
                 {"kind": "broken-obligation", "correspondence": "harness/wallocrun.mjs vs fvdriver walloc", "detail": (r.stderr or "")[-2000:]}, no_input=True)
        return stats
    diff = None
    for l, a, b in zip(lines, real, model):
        f = l.split()
        sizes = list(map(int, f[2:]))
        blocks = []
        bad = None
        for sz, cell in zip(sizes, a.split()):
            c = cell.split(":")
            if c[0] == "threw":
                bad = "the runtime threw %s" % cell; break
            addr, mem, ok = int(c[0]), int(c[1]), c[2]
            if mem > int(f[1]) * 65536: stats["grown"] += 1
            if ok != "ok":
                bad = "the block of %d bytes handed out at %d ends outside the memory (%d bytes): writing its last byte traps" % (sz, addr, mem); break
            for (a0, s0) in blocks:
                if sz > 0 and s0 > 0 and addr < a0 + s0 and a0 < addr + sz:
                    bad = "blocks [%d,+%d) and [%d,+%d) overlap" % (a0, s0, addr, sz); break
            if bad: break
            blocks.append((addr, sz))
        if bad is None and len(a.split()) != len(sizes):
            bad = "the runtime answered %d of %d allocations" % (len(a.split()), len(sizes))
        if bad:
            # shrink: shortest prefix of the size list that still fails is what the loop above stopped at
            rep.fail("walloc:" + hashlib_sha(l)[:10], "wasm runtime heap: dataEnd=%s pages=%s sizes=%s: %s" % (f[0], f[1], sizes[:len(blocks) + 1], bad),
                     {"kind": "heap", "input_line": l, "runtime": a, "model": b, "replay": "echo '%s' | node /verif/harness/wallocrun.mjs" % l})
            return stats
        if a != b:
            stats["diffs"] += 1
            diff = diff or {"input_line": l, "runtime": a, "model": b}
    if diff:
        rep.fail("tie:walloc", "Model/WasmAlloc.lean and runtime.js ferret_alloc disagree on %d allocation sequences although every block lies inside the memory and none overlap" % stats["diffs"],
                 dict(diff, kind="broken-obligation", correspondence="harness/wallocrun.mjs vs fvdriver walloc"), no_input=True)
    return stats


def main():
    tier = os.environ.get("VERIF_TIER", "quick")
    rep = Report(PID)
    rng = SplitMix64(seed() * 104729 + 18)
    try:
        hook = build_gohook()
        fvdriver()
    except BuildError as e:
        log(str(e))
        rep.fail("tie:build", "gohook / driver no longer builds against the tree (tie broken)",
                 {"kind": "broken-obligation", "correspondence": "gohook layout", "detail": str(e)[-2000:]}, no_input=True)
        write_evidence(PID, "proof", {"obligations": 1, "discharged": 0, "checker_cmd": "lake build FerretVerif.Props.C18",
                                      "trusted_base": [], "explanation": "build failed"}, violations=1)
        return rep.finish()

    types_ = gen_types(rng, tier)
    # all subterms too, so the oracle can look up component sizes/alignments
    allt = set()
    trees = {}
    for t in types_:
        tr, _ = parse(t.split())
        subterms(tr, allt)
    allt = sorted(allt)
    for t in allt:
        trees[t] = parse(t.split())[0]
    diffs, checked = [], 0
    lay = {}
    for ps in (8, 4):
        lines = ["%d %s" % (ps, t) for t in allt]
        go = run([hook, "layout"], input="".join(l + "\n" for l in lines), check=True).stdout.split("\n")
        md = run_driver(["layout"], "".join(l + "\n" for l in lines)).split("\n")
        for t, g, m in zip(allt, go, md):
            if g != m and len(diffs) < 20:
                diffs.append({"ps": ps, "type": t, "go": g, "model": m})
            f = g.split()
            try:
                lay[(ps, t)] = {"size": int(f[0]), "align": int(f[1]), "rest": f[2:]}
            except (ValueError, IndexError):
                lay[(ps, t)] = None
        # property oracle on the real layout function's outputs
        for t in allt:
            L = lay[(ps, t)]
            tr = trees[t]
            if L is None:
                rep.fail("layout:bad:%d:%s" % (ps, t), "layout of `%s` (ps=%d) not computed: %r" % (t, ps, L),
                         {"kind": "input", "type": t, "ps": ps, "cmd": "gohook layout"})
                continue
            checked += 1
            bad = None
            size, align = L["size"], L["align"]
            if not is_pow2(align): bad = "alignment %d is not a power of two" % align
            elif size % align: bad = "size %d is not a multiple of alignment %d (array stride would misalign elements)" % (size, align)
            kind, cs, n = tr
            if not bad and kind == "S":
                offs = [int(x) for x in L["rest"]]
                if len(offs) != len(cs): bad = "field count %d != %d" % (len(offs), len(cs))
                else:
                    end = 0
                    for c, o in zip(cs, offs):
                        cl = lay[(ps, show(c))]
                        if o % cl["align"]: bad = "field at offset %d not aligned to %d" % (o, cl["align"]); break
                        if o < end: bad = "field at offset %d overlaps the previous field ending at %d" % (o, end); break
                        if align % cl["align"]: bad = "field alignment %d does not divide struct alignment %d" % (cl["align"], align); break
                        end = o + cl["size"]
                    if not bad and end > size: bad = "last field ends at %d beyond struct size %d" % (end, size)
            if not bad and kind == "O":
                inner = lay[(ps, show(cs[0]))]
                flag = int(L["rest"][1])
                if not (inner["size"] <= flag < size): bad = "optional flag offset %d not in [payload size %d, object size %d)" % (flag, inner["size"], size)
            if not bad and kind == "E":
                a, b = lay[(ps, show(cs[0]))], lay[(ps, show(cs[1]))]
                if L["rest"][1] == "none": bad = "result tag offset not available"
                else:
                    tag = int(L["rest"][1])
                    if not (max(a["size"], b["size"]) <= tag < size): bad = "result tag offset %d not in [union size %d, object size %d)" % (tag, max(a["size"], b["size"]), size)
            if not bad and kind == "A":
                el = lay[(ps, show(cs[0]))]
                if size != el["size"] * n: bad = "array size %d != %d * %d" % (size, n, el["size"])
                elif align != el["align"]: bad = "array alignment %d != element alignment %d" % (align, el["align"])
            if bad:
                rep.fail("layout:%d:%s" % (ps, t), "layout of `%s` with pointer size %d: %s" % (t, ps, bad),
                         {"kind": "input", "type": t, "ps": ps, "observed": L, "cmd": "gohook layout"})

    # ---- whole compiler: sentinel programs, both targets
    nprog = 24 if tier == "quick" else 200
    jobs, meta = [], []
    for i in range(nprog):
        for target, ints in (("native", INTS_NATIVE), ("wasm", INTS_WASM)):
            p = Prog(SplitMix64(seed() * 31 + i * 2 + (target == "wasm")), ints, i)
            text, exp = p.render()
            jobs.append({"files": {"main.fer": text}, "mode": "run", "target": target})
            meta.append((target, exp, len(p.leaves)))
    results = run_many(jobs)
    wc = {"programs": len(jobs), "leaves": 0, "lines_compared": 0, "rejected_by_backend": 0}
    for (target, exp, nleaves), r, job in zip(meta, results, jobs):
        wc["leaves"] += nleaves
        if not r.accepted:
            msgs = " | ".join(d[2] for d in r.diags if d[0] == "error")[:300]
            if target == "wasm" and "wasm:" in msgs:
                wc["rejected_by_backend"] += 1   # outside the common domain of the back ends
                continue
            rep.fail("sentinel-rejected:%s:%s" % (target, hashlib_sha(job["files"]["main.fer"])),
                     "well-typed composite-value program rejected for %s: %s" % (target, msgs),
                     {"kind": "input", "files": job["files"], "target": target, "expected": "accepted", "observed": strip_ansi(r.compile_out)[-800:]})
            continue
        wc["lines_compared"] += len(exp)
        if r.lines != exp or r.run_rc != 0:
            j = next((k for k in range(min(len(exp), len(r.lines))) if exp[k] != r.lines[k]), min(len(exp), len(r.lines)))
            rep.fail("sentinel:%s:%s" % (target, hashlib_sha(job["files"]["main.fer"])),
                     "composite value corrupted on %s: output line %d is %r, expected %r (exit %s)" %
                     (target, j, r.lines[j] if j < len(r.lines) else None, exp[j] if j < len(exp) else None, r.run_rc),
                     {"kind": "input", "files": job["files"], "target": target, "expected": exp, "observed": r.lines, "cmd": "ferret -o out main.fer && ./out"})

    # ---- the heap of the wasm runtime
    walloc = check_wasm_alloc(rep, rng, tier)

    # ---- proof obligations
    ok, out = lake_build(["FerretVerif.Props.C18"])
    names = theorem_names("C18")
    axioms, discharged = {}, 0
    if ok:
        axioms, _ = audit_theorems("C18", names)
        for n in names:
            ax = axioms.get(n)
            if ax is not None and set(ax) <= ALLOWED_AXIOMS:
                discharged += 1
            else:
                rep.fail("axioms:" + n, "theorem %s missing or depends on unexpected axioms %s" % (n, ax),
                         {"kind": "broken-obligation", "theorem": n, "axioms": ax}, no_input=True)
    else:
        log(out[-3000:])
        rep.fail("proof:C18", "Props/C18.lean no longer builds", {"kind": "broken-obligation", "detail": out[-3000:]}, no_input=True)
    forb = grep_forbidden()
    if forb:
        rep.fail("audit:forbidden", "forbidden construct in Lean sources: %s" % forb[:3], {"kind": "broken-obligation", "hits": forb[:20]}, no_input=True)
    if diffs and not rep.violations and not rep.known_hit:
        rep.fail("tie:layout", "Model/Layout.lean and internal/mir/layout.go disagree on %d type expressions although every computed layout is sound" % len(diffs),
                 {"kind": "broken-obligation", "correspondence": "fvdriver layout vs gohook layout", "diffs": diffs}, no_input=True)

    cov = {
        "obligations": len(names), "discharged": discharged,
        "checker_cmd": "cd /verif/lean && lake build FerretVerif.Props.C18 && #print axioms per theorem",
        "trusted_base": ["Lean 4 kernel", "axioms: " + ", ".join(sorted({a for v in axioms.values() if v for a in v})),
                         "gohook layout (real mir.NewDataLayout(ps).SizeOf/AlignOf/StructLayout, Generator.resultTagOffset)",
                         "python layout-soundness oracle; sentinel program generator (expected output computed statically)",
                         "harness/wallocrun.mjs (runtime.js bind/ferret_alloc over a real WebAssembly.Memory under node) vs Model/WasmAlloc.lean; JS numbers modelled by Nat (addresses below 2^31), memory.grow assumed to succeed"],
        "theorems": [{"name": n, "axioms": axioms.get(n)} for n in names],
        "evaluations": checked + len(jobs), "distinct_nontrivial": len([t for t in allt if trees[t][0] != "L"]),
        "rule": "type expressions: all leaves, exhaustive depth-1/2 composites over reduced leaf sets, random to depth 4, closed under subterms, "
                "x pointer sizes {8,4}; non-trivial = distinct composite (non-leaf) type expressions; plus sentinel programs on native and wasm",
        "samples": allt[5:len(allt):max(1, len(allt) // 10)],
        "exhaustive": False, "model_vs_code_diffs": diffs[:10], "whole_compiler": wc, "wasm_runtime_heap": walloc,
    }
    write_evidence(PID, "proof", cov,
                   assumptions=["wasm back end supports only <=64-bit integers in composites (larger payloads and optionals/results are outside the common domain; counted as rejected_by_backend)",
                                "QBE/wasm load/store instruction selection is covered under C01/C02"],
                   violations=len(rep.violations))
    return rep.finish()


def hashlib_sha(s):
    import hashlib
    return hashlib.sha1(s.encode()).hexdigest()[:10]


if __name__ == "__main__":
    sys.exit(main())
