"""C08 — dynamic arrays and strings are bounds-checked at run time, not mis-rejected.
Theorems: Props/C08.lean (the emitted check sequence = the specified normalisation for i32-representable indices;
F13 witness for wider index types).  Tie: generated histories of literal construction / append / element
assignment / indexing with opaque and compile-time-known indices over all index values around the current
length, on both targets, against the Lean reference interpreter; panics must deliver the lines printed before."""
import os, sys, json, hashlib
sys.path.insert(0, os.path.join(os.path.dirname(os.path.abspath(__file__)), "..", "lib"))
from common import *
from wholeprog import *
from coredsl import *

PID = "C08"


def history(rng, t, oob_kind):
    """one program: a dynamic array history — literal construction, append, element assignment, indexing with opaque and
    compile-time-known indices, REASSIGNMENT of the variable (from a call building an array of another length, from another literal,
    from another variable) — ending (optionally) in an out-of-bounds access.  `static` mirrors what a compiler may know: the literal
    length, None after an assignment from a non-literal.  Compile-time-known indices avoid the region of known finding F12 only
    (a literal index >= the literal's length, or a negative one, after an append)."""
    n = 1 + rng.below(4)
    vals = [wrap(t, rng.below(100) - 50) for _ in range(n)]
    body = [Let("d", TD(t), ALit(*[I(t, v) for v in vals])), Let("e", TD(t), ALit(*[I(t, wrap(t, 60 + k)) for k in range(2 + rng.below(4))]))]
    elen = len(body[1].split("(i ")) - 1
    ln, static, appended = n, n, False
    for step in range(3 + rng.below(9)):
        r = rng.below(14)
        if r < 3:
            body.append(Append(V("d"), I(t, wrap(t, rng.below(100)))))
            ln += 1; appended = True
        elif r < 5:
            i = rng.below(2 * ln) - ln
            body.append(Set(Idx(V("d"), opaque_ix(rng, i)), I(t, wrap(t, rng.below(100)))))
        elif r < 8:
            i = rng.choice([-ln, -1, 0, ln - 1, rng.below(2 * ln) - ln])
            body.append(Print(Idx(V("d"), opaque_ix(rng, i))))
        elif r < 10:
            # compile-time-known index valid for the CURRENT length
            i = rng.choice([rng.below(ln), ln - 1, -1, -ln, rng.below(2 * ln) - ln])       # also positions that exist only thanks to appends
            if rng.below(3) == 0: body.append(Set(Idx(V("d"), I("i32", i)), I(t, wrap(t, rng.below(100)))))
            body.append(Print(Idx(V("d"), I("i32", i))))
        elif r < 11:
            k = 1 + rng.below(7)
            body.append(Set(V("d"), Call("mk", I("i32", k)))); ln, static, appended = k, None, False
        elif r < 12:
            k = 1 + rng.below(5)
            body.append(Set(V("d"), ALit(*[I(t, wrap(t, 30 + j)) for j in range(k)]))); ln, static, appended = k, k, False
        elif r < 13:
            body.append(Set(V("d"), V("e"))); ln, static, appended = elen, None, False
            body.append(Print(Len(V("d"))))
        else:
            body.append(Print(Len(V("d"))))
    body.append(Print(Len(V("d"))))
    if oob_kind == "read":
        j = rng.choice([ln, ln + 1, -ln - 1, 2147483647, -2147483648, 4294967296, 4294967296 + rng.below(ln), -4294967296, 4294967295, 9223372036854775807])
        body += [Print(I("i32", 4242)), Print(Idx(V("d"), opaque_ix(rng, j))), Print(I("i32", 1))]
    elif oob_kind == "write":
        j = rng.choice([ln, -ln - 1, ln + 7, 4294967296 + rng.below(ln), -4294967297])
        body += [Print(I("i32", 4242)), Set(Idx(V("d"), opaque_ix(rng, j)), I(t, 1)), Print(I("i32", 1))]
    mk = Fn("mk", [("n", "i32")], TD(t), Let("r", TD(t), ALit(I(t, 0))), Let("j", "i32", I("i32", 1)),
            While(Bin("lt", "i32", V("j"), V("n")), Append(V("r"), Cast("i32", t, Bin("mul", "i32", V("j"), I("i32", 3)))), Set(V("j"), Bin("add", "i32", V("j"), I("i32", 1)))), Ret(V("r")))
    return Prog(Fn("ix", [("k", "i32")], "i32", Ret(V("k"))), Fn("ix64", [("k", "i64")], "i64", Ret(V("k"))), Fn("ixu", [("k", "u32")], "u32", Ret(V("k"))), mk, Main(*body))


def reassign_longer(t):
    """fixed history: a dynamic array first bound to a SHORT literal is reassigned from a call / another variable / a call again, each LONGER, and
    then indexed with compile-time-known indices that exist only in the new value"""
    body = [Let("d", TD(t), ALit(I(t, 1), I(t, 1), I(t, 2))), Let("e", TD(t), ALit(*[I(t, 60 + k) for k in range(5)])),
            Print(Idx(V("d"), I("i32", 2))),
            Set(V("d"), Call("mk", I("i32", 6))), Print(Idx(V("d"), I("i32", 4))), Print(Idx(V("d"), I("i32", -5))), Print(Idx(V("d"), I("i32", 5))),
            Set(Idx(V("d"), I("i32", 3)), I(t, 9)), Print(Idx(V("d"), I("i32", 3))),
            Set(V("d"), V("e")), Print(Idx(V("d"), I("i32", 4))), Print(Idx(V("d"), I("i32", -4))),
            Set(V("d"), ALit(I(t, 7), I(t, 8))), Print(Idx(V("d"), I("i32", 1))),
            Set(V("d"), Call("mk", I("i32", 7))), Print(Idx(V("d"), I("i32", 6))), Print(Idx(V("d"), I("i32", -7))), Print(Len(V("d")))]
    mk = Fn("mk", [("n", "i32")], TD(t), Let("r", TD(t), ALit(I(t, 0))), Let("j", "i32", I("i32", 1)),
            While(Bin("lt", "i32", V("j"), V("n")), Append(V("r"), Cast("i32", t, Bin("mul", "i32", V("j"), I("i32", 3)))), Set(V("j"), Bin("add", "i32", V("j"), I("i32", 1)))), Ret(V("r")))
    return Prog(mk, Main(*body))


def opaque_ix(rng, i):
    """an index value the compiler cannot see through, of type i32, i64 or u32 (the wider types when the value needs them, or at random)"""
    if -2147483648 <= i <= 2147483647 and rng.below(3):
        return Call("ix", I("i32", i))
    if 0 <= i <= 4294967295 and rng.below(2):
        return Call("ixu", I("u32", i))
    return Call("ix64", I("i64", i))


def string_history(rng):
    """a string VARIABLE assigned constants of different lengths, indexed (opaque and literal indices, negative ones too) while it holds
    each of them; optionally ends in an out-of-bounds index for the value it holds at that moment.  -> (text, expected lines, panics)"""
    pool = ["hi", "hello, world", "a", "xyzzy", "0123456789abcdef", "ok!", "h\u00e9llo w\u00f6rld", "na\u00efve caf\u00e9", "\u65e5\u672c", "\u00e9"]      # lengths and indices are in BYTES
    lines = ['import "std/io";', "fn ix(k: i32) -> i32 { return k; }", "fn pick(k: i32) -> str {", '    if k == 0 { return "zero"; }', '    return "seventeen chars!!";', "}", "fn main() {"]
    cur = rng.choice(pool)
    lines.append('    let s: str = "%s";' % cur)
    exp, cnt = [], 0
    for step in range(3 + rng.below(7)):
        r = rng.below(10)
        if r < 5:
            b = cur.encode()
            i = rng.choice([0, -1, len(b) - 1, -len(b), rng.below(2 * len(b)) - len(b)])
            cnt += 1
            idx = "ix(%d)" % i if rng.below(3) else "%d" % i
            lines.append("    let c%d: u8 = s[%s] as u8;" % (cnt, idx)); lines.append("    io::Println(c%d);" % cnt); exp.append(str(b[i]))
        elif r < 8:
            cur = rng.choice(pool); lines.append('    s = "%s";' % cur)
        elif r < 9:
            k = rng.below(2); cur = ["zero", "seventeen chars!!"][0 if k == 0 else 1]; lines.append("    s = pick(%d);" % k)
        else:
            lines.append("    io::Println(len(s));"); exp.append(str(len(cur.encode())))
    lines.append("    io::Println(777);"); exp.append("777")
    panics = rng.below(2) == 0
    if panics:
        n = len(cur.encode())
        lines.append("    let z: u8 = s[ix(%d)] as u8;" % rng.choice([n, n + 3, -n - 1])); lines.append("    io::Println(z);")
    lines.append("}")
    return "\n".join(lines) + "\n", exp, panics


STRING_CASES = [("hello", [0, 4, -1, -5], None), ("hello", [1], 5), ("hello", [2], -6), ("a", [0, -1], 1), ("xyz", [0], 3), ("héllo", [0], 6),
                ("h\u00e9llo w\u00f6rld", [0, 12, -1, -13, 11, -12], 13), ("h\u00e9llo w\u00f6rld", [12], -14), ("\u65e5\u672c", [0, 5, -1, -6], 6), ("na\u00efve caf\u00e9", [11, -12, 10], 12)]


def string_program(s, ok_idx, bad):
    lines = ['import "std/io";', "fn ix(k: i32) -> i32 { return k; }", "fn main() {", '    let s: str = "%s";' % s]
    exp = []
    b = s.encode()
    for i in ok_idx:
        lines.append("    let c%d: u8 = s[ix(%d)] as u8;" % (abs(i) * 2 + (i < 0), i))
        lines.append("    io::Println(c%d);" % (abs(i) * 2 + (i < 0)))
        exp.append(str(b[i]))
    lines.append("    io::Println(777);"); exp.append("777")
    if bad is not None:
        lines.append("    let z: u8 = s[ix(%d)] as u8;" % bad)
        lines.append("    io::Println(z);")
    lines.append("}")
    return "\n".join(lines) + "\n", exp, bad is not None


KNOWN_PROBES = {
    # F12: positions that exist only because of earlier appends, addressed by a compile-time-known index
    "append-then-literal-index": Prog(Main(Let("d", TD("i32"), ALit(I("i32", 1), I("i32", 2), I("i32", 3))), Append(V("d"), I("i32", 4)), Print(Idx(V("d"), I("i32", 3))))),
    # F13: a 64-bit index is truncated before the check
    "wide-index-i64": Prog(Fn("big", [], "i64", Ret(I("i64", 4294967296))), Main(Let("d", TD("i32"), ALit(I("i32", 10), I("i32", 20), I("i32", 30))), Print(I("i32", 1)), Print(Idx(V("d"), Call("big"))), Print(I("i32", 2)))),
    "wide-index-u32": Prog(Fn("big", [], "u32", Ret(I("u32", 4294967295))), Main(Let("d", TD("i32"), ALit(I("i32", 10), I("i32", 20), I("i32", 30))), Print(I("i32", 1)), Print(Idx(V("d"), Call("big"))), Print(I("i32", 2)))),
}


def main():
    tier = os.environ.get("VERIF_TIER", "quick")
    rep = Report(PID)
    rng = SplitMix64(seed() * 179424673 + 8)
    try:
        build_ferret(); fvdriver()
    except BuildError as e:
        log(str(e))
        rep.fail("tie:build", "compiler / driver no longer builds (tie broken)", {"kind": "broken-obligation", "detail": str(e)[-2000:]}, no_input=True)
        write_evidence(PID, "proof", {"obligations": 1, "discharged": 0, "checker_cmd": "lake build", "trusted_base": []}, violations=1)
        return rep.finish()
    n = 60 if tier == "quick" else 900
    progs, kinds = [], []
    for i in range(n):
        t = rng.choice(["i32", "i64", "u8", "i16", "i32"])
        k = ["none", "read", "write"][i % 3]
        progs.append(history(rng, t, k)); kinds.append(k)
    for t in ("i32", "i64", "u8", "i16"):
        progs.append(reassign_longer(t)); kinds.append("none")
    names = list(KNOWN_PROBES)
    progs += [KNOWN_PROBES[k] for k in names]
    ms = model_run(progs)
    st = {"programs": 0, "panics_expected": 0, "lines": 0, "targets": ["native", "wasm"], "string_cases": 0}
    for target in ("native", "wasm"):
        res = run_many([{"files": {"main.fer": m.get("text", "")}, "mode": "run", "target": target, "timeout": 30} for m in ms])
        for i, (m, r) in enumerate(zip(ms, res)):
            if "text" not in m or m["term"].startswith(("stuck", "fuel")):
                rep.fail("gen-model:%d" % i, "history %d not runnable by the reference interpreter: %s" % (i, m.get("error", m.get("term"))), {"kind": "broken-obligation", "correspondence": "c08 generator vs Core/Eval"}, no_input=True)
                continue
            st["programs"] += 1; st["lines"] += len(m["lines"])
            if m["term"].startswith("panic"): st["panics_expected"] += 1
            c = compare(m, r, target)
            if c is None and m["term"].startswith("panic") and target == "native" and "index out of bounds" not in r.stderr:
                c = "panic message missing on stderr: %r" % r.stderr[:100]
            if c:
                if i >= n:
                    key = "probe:%s:%s" % (names[i - n], target)
                else:
                    key = "hist:%s:%s" % (target, hashlib.sha1(m["text"].encode()).hexdigest()[:12])
                rep.fail(key, "dynamic-array history on %s: %s" % (target, c[:220]),
                         {"kind": "input", "files": {"main.fer": m["text"]}, "target": target, "expected": {"lines": m["lines"], "term": m["term"]},
                          "observed": {"lines": r.lines[-8:], "exit": r.run_rc, "stderr": r.stderr[-200:], "compile": strip_ansi(r.compile_out)[-400:]}})
        # strings
        for s, ok_idx, bad in STRING_CASES:
            text, exp, panics = string_program(s, ok_idx, bad)
            r = run_project({"main.fer": text}, mode="run", target=target)
            st["string_cases"] += 1
            good = r.accepted and r.lines == exp and ((r.run_rc != 0) if panics else (r.run_rc == 0))
            if not good:
                rep.fail("str:%s:%s:%s:%s" % (target, s, ok_idx, bad), "string indexing on %s: %r idx %s bad %s -> lines %s exit %s (%s), expected %s %s" %
                         (target, s, ok_idx, bad, r.lines, r.run_rc, strip_ansi(r.compile_out)[-120:], exp, "then panic" if panics else "exit 0"),
                         {"kind": "input", "files": {"main.fer": text}, "target": target, "expected": exp, "observed": r.lines})

        # string variables holding constants of different lengths over time
        sh = [string_history(rng) for _ in range(40 if tier == "quick" else 400)]
        shr = run_many([{"files": {"main.fer": t_}, "mode": "run", "target": target, "timeout": 30} for t_, _, _ in sh])
        for (text, exp, panics), r in zip(sh, shr):
            st["string_cases"] += 1
            if target == "wasm" and not r.accepted: continue          # constructs the wasm back end does not support are outside the common domain
            good = r.accepted and r.lines == exp and ((r.run_rc != 0) if panics else (r.run_rc == 0))
            if not good:
                rep.fail("strhist:%s:%s" % (target, hashlib.sha1(text.encode()).hexdigest()[:12]), "string history on %s -> lines %s exit %s (%s), expected %s %s" %
                         (target, r.lines[-6:], r.run_rc, strip_ansi(r.compile_out)[-160:], exp[-6:], "then panic" if panics else "exit 0"),
                         {"kind": "input", "files": {"main.fer": text}, "target": target, "expected": exp, "observed": r.lines})

    ok, out = lake_build(["FerretVerif.Props.C08"])
    tn = theorem_names("C08")
    axioms, discharged = {}, 0
    if ok:
        axioms, _ = audit_theorems("C08", tn)
        for nm in tn:
            ax = axioms.get(nm)
            if ax is not None and set(ax) <= ALLOWED_AXIOMS: discharged += 1
            else: rep.fail("axioms:" + nm, "theorem %s missing or depends on unexpected axioms %s" % (nm, ax), {"kind": "broken-obligation", "theorem": nm}, no_input=True)
    else:
        log(out[-3000:])
        rep.fail("proof:C08", "Props/C08.lean no longer builds", {"kind": "broken-obligation", "detail": out[-3000:]}, no_input=True)
    forb = grep_forbidden()
    if forb:
        rep.fail("audit:forbidden", "forbidden construct in Lean sources: %s" % forb[:3], {"kind": "broken-obligation", "hits": forb[:20]}, no_input=True)
    cov = {
        "obligations": len(tn), "discharged": discharged,
        "checker_cmd": "cd /verif/lean && lake build FerretVerif.Props.C08 && #print axioms per theorem",
        "trusted_base": ["Lean 4 kernel", "axioms: " + ", ".join(sorted({a for v in axioms.values() if v for a in v})), "Core/Eval.lean as the oracle of array histories", "runner: exit status / stderr text / stdout captured through a file"],
        "theorems": [{"name": nm, "axioms": axioms.get(nm)} for nm in tn],
        "evaluations": st["programs"] + st["string_cases"], "distinct_nontrivial": st["panics_expected"],
        "rule": "seeded histories (literal, append, element assignment, reassignment from a call / another literal / another variable, string variables reassigned to constants of other lengths, indexing with opaque indices in {-len-1..len+1, INT_MIN, INT_MAX} and compile-time-known indices, len) for element types "
                "i32/i64/u8/i16; one third end in an out-of-bounds read, one third in an out-of-bounds write; string indexing cases; both targets; non-trivial = histories that must panic",
        "samples": [ms[0].get("text", "")[:400]], "stats": st,
    }
    write_evidence(PID, "proof", cov, assumptions=["index expressions have type i32, i64 or u32 (F13 was fixed in /repo)", "compile-time-known indices are used at every point of a history (F12 was fixed in /repo)"],
                   violations=len(rep.violations))
    return rep.finish()


if __name__ == "__main__":
    sys.exit(main())
