"""C19 — layout of the source text does not change meaning; diagnostics follow the text.
Theorems: Props/C19.lean (leading trivia inert; lines/columns/offsets follow the text; chunking irrelevance and its tab
witness).  Ties: regenerated lexer tables + lexer correspondence (shared with C13).  The open token-gap statement and the
parser are exercised on the real code: (a) real lexer: significant tokens of `text` vs `text with trivia inserted before
tokens`; (b) whole compiler: accepted programs must stay accepted and print the same, rejected programs must stay rejected
with the same diagnostics attached to the same tokens (line:col recomputed from the new text)."""
import os, sys, json, hashlib, re
sys.path.insert(0, os.path.join(os.path.dirname(os.path.abspath(__file__)), "..", "lib"))
from common import *
from ferretrun import *
import lexgen, fuzzgen

PID = "C19"
import time
T0 = time.time()
TRIVIA = [b" ", b"\n", b"\t", b"  \n\t ", b"\r\n", b" /* c */ ", b" /* multi\n line \" ' // */ ", b" // c\n", b" /**/ ", b"\n// x \"q\" 'z' /* \n", b"\n\n\n", b" /* * / ** */\t",
          b" /* a\tb */ ", b" /*\t*/", b" /* x\n\ty\t*/ ", b" // t\tu\n", b"\t/* \t */\t"]
# every inserted piece is SEPARATOR trivia in the sense of Props/C19 `SepTrivia`: it begins with a white-space byte (a comment glued to a
# preceding `/` would form `//`)
# trivia with non-ASCII text (outside the Lean model's domain; positions are checked against the column rule re-stated in Python)
TRIVIA_U = [" /* caf\u00e9 \u2192 */ ".encode(), " /* \u65e5\u672c\n \u00e9 */ ".encode(), " // \u00fc\u00f1\n".encode(), " /*\u00e9\t\u00e9*/".encode()]


def advance_spec(pos, chunk):
    """positions.go Position.Advance re-stated: per chunk, rune by rune; LF -> next line, column 1; tab -> +4 columns; any other rune -> +1
    column unless it directly follows a tab inside the same chunk; the index counts bytes"""
    line, col, idx = pos
    prev_tab = False
    for ch in chunk.decode("utf-8", "surrogateescape"):
        nb = len(ch.encode("utf-8", "surrogateescape"))
        if ch == "\n": line, col, prev_tab = line + 1, 1, False
        elif ch == "\t": col, prev_tab = col + 4, True
        else:
            if not prev_tab: col += 1
            prev_tab = False
        idx += nb
    return (line, col, idx)


def positions_ok(text, toks):
    """every token must start/stop where the column rule puts it, given the lexer's own chunks (tokens and the gaps between them)"""
    pos = (1, 1, 0)
    for k, v, a, b in toks:
        if k == "end_of_file": break
        # the gap before the token is consumed as white-space chunk(s): one chunk per maximal run (the lexer's `\\s+`)
        if a[2] > pos[2]:
            pos = advance_spec(pos, text[pos[2]:a[2]])
        if tuple(a) != pos: return "token %r starts at %s, the text puts it at %s" % (v[:20], a, pos)
        pos = advance_spec(pos, text[a[2]:b[2]])
        if tuple(b) != pos: return "token %r ends at %s, the text puts it at %s" % (v[:20], b, pos)
    return None

EXTERN = b"\n// @extern\n"


def lex_real(hook, texts):
    """[(tokens, errs)]; token = (kind, value, (l,c,i), (l,c,i))"""
    out = run([hook, "lex"], input="".join((t.hex() if t else "-") + "\n" for t in texts), timeout=900).stdout.split("\n")
    res = []
    for line in out[:len(texts)]:
        if " | errs=" not in line:
            res.append(None)
            continue
        body, errs = line.rsplit(" | errs=", 1)
        toks = []
        for t in body.split(";"):
            if not t: continue
            k, v, a, b = t.split(",")
            toks.append((bytes.fromhex(k).decode("latin1"), bytes.fromhex(v), tuple(int(x) for x in a.split(".")), tuple(int(x) for x in b.split("."))))
        res.append((toks, int(errs)))
    return res


def sig(toks):
    return [(k, v) for k, v, a, b in toks if k != "comment"]


def insert(text, toks, plan):
    """plan: {significant-token ordinal: trivia}; inserts the trivia right before that token"""
    pieces, last, n = [], 0, 0
    for k, v, a, b in toks:
        if k == "comment": continue
        if n in plan:
            pieces.append(text[last:a[2]]); pieces.append(plan[n]); last = a[2]
        n += 1
    pieces.append(text[last:])
    return b"".join(pieces)


def plans(rng, nsig, count, allow_all=True):
    out = []
    for i in range(count):
        m = rng.below(6)
        if m == 0 and allow_all:
            t = rng.choice(TRIVIA[:5] + TRIVIA[5:6])
            out.append({j: t for j in range(nsig)})
        elif m == 1 and allow_all:
            out.append({j: rng.choice(TRIVIA) for j in range(nsig) if rng.below(2)})
        else:
            out.append({rng.below(nsig): rng.choice(TRIVIA) for _ in range(1 + rng.below(4))})
    return out


def refs(toks, l, c):
    """candidate references of a diagnostic position to tokens of the text"""
    out, n = set(), 0
    for k, v, a, b in toks:
        if k == "comment": continue
        if (a[0], a[1]) == (l, c): out.add(("s", n))
        if (b[0], b[1]) == (l, c): out.add(("e", n))
        n += 1
    if not out:
        n = 0
        for k, v, a, b in toks:
            if k == "comment": continue
            if (a[0], a[1]) <= (l, c) < (b[0], b[1]): out.add(("in", n, l - a[0], c - (a[1] if l == a[0] else 0)))
            n += 1
    return out


def diag_key(d):
    return (d[0], d[1] or "", re.sub(r"\d+", "#", d[2]))


def main():
    tier = os.environ.get("VERIF_TIER", "quick")
    rep = Report(PID)
    stats = {}
    try:
        hook = build_gohook(); build_ferret()
        problems, ops, kws = lexgen.gen_lex_tables(hook)
        fvdriver()
    except BuildError as e:
        log(str(e))
        rep.fail("tie:build", "compiler / hook / driver no longer builds (tie broken)", {"kind": "broken-obligation", "detail": str(e)[-2000:]}, no_input=True)
        write_evidence(PID, "other", {"explanation": "build failed", "obligations": 1, "discharged": 0}, violations=1)
        return rep.finish()
    for pr in problems:
        rep.fail("tie:lex-table:" + hashlib.sha1(pr.encode()).hexdigest()[:8], "lexer pattern list differs from what Model/Lexer.lean transcribes: " + pr,
                 {"kind": "broken-obligation", "correspondence": "tokenizer.go pattern list vs Model/Lexer.lean scanners", "detail": pr}, no_input=True)
    rng = SplitMix64(seed() * 104729 + 19)
    seeds = [(n, s) for n, s in fuzzgen.seed_programs() if all(c < 128 for c in s)]
    # token-adjacency programs: an operand directly followed by a sign written against digits, doubled signs, ranges, member access on
    # numbers ... — the places where a lexer decides by what stands next to (or before) a token; accepted or rejected, each is a base
    ADJ_PRE = 'import "std/io";\nfn two(a: i32, b: i32) -> i32 { return a + b; }\n'
    ADJ = ["let a: i32 = width -1;", "let a: i32 = width-1;", "let a: i32 = width - 1;", "let a: i32 = q[0] -1;", "let a: i32 = two(1, 2) -2;", "let a: i32 = (width) -1;", "let a: i32 = width - -1;",
           "let a: i32 = width- -1;", "let a: i32 = width -0x10;", "let h: f64 = 1.5 -2.5;", "let a: i32 = -1 -1;", "let a: i32 = width +1;", "let a: i32 = width*-1;", "let a: i32 = width/-1;",
           "let a: i32 = 0; for i in 0..3 { a = a + i; }", "let a: i32 = 0; for i in 0 .. 3 { a = a + i; }", "let a: i32 = width--1;", "let a: i32 = width<-1 ;", "let b: bool = width<-1;", "let b: bool = width>-1;",
           "let a: i32 = width; a -= 1;", "let a: i32 = width; a-=1;", "let a: i32 = width; a = a -1;", "let a: i32 = two(width -1, 2);", "let a: i32 = two(width, -1);", "let a: i32 = q[1 -1];", "let a: i32 = q[-1];"]
    for k, st in enumerate(ADJ):
        body = "fn main() {\n    let width: i32 = 10;\n    let q: [2]i32 = [3, 4];\n    %s\n    io::Println(width);\n}\n" % st
        seeds.append(("adj:%d" % k, (ADJ_PRE + body).encode()))
    seeds.append(("adj:ret", (ADJ_PRE + "fn f(n: i32) -> i32 {\n    return n -1;\n}\nfn main() {\n    io::Println(f(3));\n}\n").encode()))

    # ---- (a) real lexer and model: significant tokens invariant under insertion before tokens
    bases = [s for _, s in seeds]
    for _ in range(60 if tier == "quick" else 600):
        _, m = fuzzgen.mutate(rng, rng.choice(bases))
        bases.append(bytes(c for c in m if c < 128))
    lx = lex_real(hook, bases)
    lex_cases, texts, metas = 0, [], []
    for b, r in zip(bases, lx):
        if r is None or r[1] != 0: continue            # lexer errors: an inserted comment may legitimately close an unterminated opener
        toks = r[0]
        # `/` immediately followed by `*`: unterminated comment opener (see Props/C19 cleanRun)
        if any(k == "/" and i + 1 < len(toks) and toks[i + 1][0] == "*" and toks[i + 1][2][2] == b_[2] for i, (k, v, a, b_) in enumerate(toks)): continue
        nsig = len(sig(toks))
        if not b.endswith(b"\n"):
            nsig -= 1              # the end-of-file token: text put there would continue a line comment that the file's end terminates
        if nsig <= 0: continue     # nothing but trivia: there is no gap between two tokens
        for pl in plans(rng, nsig, 6 if tier == "quick" else 20):
            texts.append(insert(b, toks, pl)); metas.append((b, toks, pl))
        for _ in range(2 if tier == "quick" else 6):           # non-ASCII trivia: real lexer only
            pl = {rng.below(nsig): rng.choice(TRIVIA_U) for _ in range(1 + rng.below(3))}
            texts.append(insert(b, toks, pl)); metas.append((b, toks, pl))
    lv = lex_real(hook, texts)
    model = run_driver(["lex"], "".join((t.hex() if t and all(c < 128 for c in t) else "-") + "\n" for t in texts)).split("\n")
    golines = run([hook, "lex"], input="".join((t.hex() if t else "-") + "\n" for t in texts), timeout=900).stdout.split("\n")
    lexdiff = 0
    for (b, toks, pl), t, r, ml, gl in zip(metas, texts, lv, model, golines):
        lex_cases += 1
        if all(c < 128 for c in t) and ml != gl: lexdiff += 1
        if r is None or sig(r[0]) != sig(toks) or r[1] != 0:
            rep.fail("lexgap:" + hashlib.sha1(t).hexdigest()[:12], "inserting trivia before tokens changes the token stream: %r -> %r" % (b[:60], t[:80]),
                     {"kind": "input", "base_hex": b.hex(), "variant_hex": t.hex(), "plan": {str(k): v.decode("latin1") for k, v in pl.items()}, "cmd": "gohook lex"})
            continue
        pe = positions_ok(t, r[0])
        if pe:
            rep.fail("lexpos:" + hashlib.sha1(t).hexdigest()[:12], "position of a token of the reformatted text does not follow the text: " + pe,
                     {"kind": "input", "variant_hex": t.hex(), "cmd": "gohook lex", "detail": pe})
            continue
        # positions follow the text: every significant token starts where the text says (line = 1 + #LF before it)
        for (k, v, a, bb) in r[0]:
            if a[0] != 1 + t[:a[2]].count(b"\n"):
                rep.fail("lexline:" + hashlib.sha1(t).hexdigest()[:12], "token %r at offset %d of the reformatted text is reported on line %d, the text has it on line %d" % (v[:20], a[2], a[0], 1 + t[:a[2]].count(b"\n")),
                         {"kind": "input", "variant_hex": t.hex(), "cmd": "gohook lex"})
                break
    if lexdiff:
        rep.fail("tie:lexer", "Model/Lexer.lean and lexer.Tokenize disagree on %d of %d reformatted texts" % (lexdiff, lex_cases),
                 {"kind": "broken-obligation", "correspondence": "fvdriver lex vs gohook lex"}, no_input=True)
    stats["lexer_gap_cases"] = lex_cases
    log("C19 lexer part done %.1fs" % (time.time() - T0))

    # ---- (b) whole compiler
    # accepted programs: the repo's examples that compile and run
    res = run_many([{"files": {"main.fer": s}, "mode": "run", "timeout": 10} for _, s in seeds])
    res2 = run_many([{"files": {"main.fer": s}, "mode": "run", "timeout": 10} for _, s in seeds])
    resc = run_many([{"files": {"main.fer": s}, "mode": "check", "timeout": 60} for _, s in seeds])
    # accepted bases must be deterministic (same output twice) and quick
    accepted = [(n, s, r) for (n, s), r, r2 in zip(seeds, res, res2) if r.accepted and r.artifact and not r.timeout and not r2.timeout and (r.stdout, r.run_rc) == (r2.stdout, r2.run_rc)]
    rejected = [(n, s, r) for (n, s), r in zip(seeds, resc) if r.compile_rc == 1 and r.diags]
    # more rejected programs: mutated examples whose lexing is clean
    cand = []
    for _ in range(150 if tier == "quick" else 1200):
        n, s = rng.choice(seeds)
        kind, m = fuzzgen.mutate(rng, s)
        if all(c < 128 for c in m): cand.append(("mut:" + kind + ":" + n, m))
    cl = lex_real(hook, [m for _, m in cand])
    cand = [(n, m) for (n, m), r in zip(cand, cl) if r is not None and r[1] == 0 and not any(k == "/" and i + 1 < len(r[0]) and r[0][i + 1][0] == "*" for i, (k, v, a, b_) in enumerate(r[0]))]
    cres = run_many([{"files": {"main.fer": m}, "mode": "check", "timeout": 60} for _, m in cand])
    seen_sigs = set()
    for (n, m), r in zip(cand, cres):
        if r.compile_rc == 1 and r.diags:
            k = tuple(sorted(set(diag_key(d) for d in r.diags)))
            if k in seen_sigs: continue                 # one base per distinct diagnostic set
            seen_sigs.add(k)
            rejected.append((n, m, r))
    rejected = rejected[: (70 if tier == "quick" else 300)]
    acc_n = 5 if tier == "quick" else 20
    jobs, jm = [], []
    for n, s, r in accepted:
        toks = lex_real(hook, [s])[0][0]
        nsig = len(sig(toks)) - (0 if s.endswith(b"\n") else 1)      # the end-of-file gap of a text without final newline may lie inside a line comment
        if nsig <= 0: continue
        for pl in plans(rng, nsig, acc_n):
            jobs.append({"files": {"main.fer": insert(s, toks, pl)}, "mode": "run", "timeout": 10}); jm.append(("acc", n, s, r, toks, pl))
        # known-finding probe: a comment carrying the @extern directive in front of the first declaration
    rej_n = 8 if tier == "quick" else 25
    for n, s, r in rejected:
        toks = lex_real(hook, [s])[0][0]
        nsig = len(sig(toks)) - (0 if s.endswith(b"\n") else 1)
        if nsig <= 0: continue
        for pl in plans(rng, nsig, rej_n):
            jobs.append({"files": {"main.fer": insert(s, toks, pl)}, "mode": "check", "timeout": 60}); jm.append(("rej", n, s, r, toks, pl))
    log("C19 bases done %.1fs, %d jobs" % (time.time() - T0, len(jobs)))
    out = run_many(jobs)
    log("C19 variants done %.1fs" % (time.time() - T0))
    vt = lex_real(hook, [j["files"]["main.fer"] for j in jobs])
    unmapped, compared, moved = 0, 0, 0
    for (kind, n, s, r, toks, pl), j, o, vl in zip(jm, jobs, out, vt):
        text = j["files"]["main.fer"]
        h = hashlib.sha1(text).hexdigest()[:12]
        rp = {"kind": "input", "base": n, "files": {"main.fer": text.decode("latin1")}, "base_files": {"main.fer": s.decode("latin1")}, "plan": {str(k): v.decode("latin1") for k, v in pl.items()}}
        if o.timeout:
            continue          # still no verdict after the solitary re-run with a longer limit: says nothing about the layout
        if kind == "acc":
            if not o.accepted:
                rep.fail("layout-reject:" + h, "program `%s` is accepted, the same program with trivia inserted between tokens is rejected: %s" % (n, [d[2] for d in o.diags][:2]),
                         dict(rp, cmd="ferret -o out main.fer", observed=strip_ansi(o.compile_out)[-600:]))
            elif (o.stdout, o.run_rc) != (r.stdout, r.run_rc):
                rep.fail("layout-output:" + h, "program `%s` prints different output after trivia was inserted between tokens" % n,
                         dict(rp, cmd="ferret -o out main.fer && ./out", expected=r.stdout[-400:], observed=o.stdout[-400:]))
            continue
        if o.compile_rc != 1:
            rep.fail("layout-accept:" + h, "rejected program `%s` changes verdict (exit %s) after trivia was inserted between tokens" % (n, o.compile_rc),
                     dict(rp, cmd="ferret -t main.fer", observed=strip_ansi(o.compile_out)[-600:]))
            continue
        # diagnostics: same multiset of (severity, code, message), each attached to the same token
        vtoks = vl[0] if vl else []
        base_d = [(diag_key(d), refs(toks, d[4], d[5]) if d[4] else None) for d in r.diags]
        var_d = [(diag_key(d), refs(vtoks, d[4], d[5]) if d[4] else None, d) for d in o.diags]
        used = [False] * len(var_d)
        problem = None
        for bk, br in base_d:
            cands = [i for i, (vk, vr, _) in enumerate(var_d) if not used[i] and vk == bk]
            if not cands:
                problem = "diagnostic `%s` disappears" % bk[2][:80]; break
            if br is None or not br:
                unmapped += 1; used[cands[0]] = True; continue
            hit = [i for i in cands if var_d[i][1] and (var_d[i][1] & br)]
            if not hit:
                d = var_d[cands[0]][2]
                problem = "diagnostic `%s` no longer points to the same token: now at %s:%s, token refs %s vs %s" % (bk[2][:60], d[4], d[5], sorted(var_d[cands[0]][1] or [])[:2], sorted(br)[:2]); break
            used[hit[0]] = True; compared += 1
        if problem is None and not all(used):
            problem = "new diagnostic `%s` appears" % var_d[used.index(False)][0][2][:80]
        if problem:
            rep.fail("layout-diag:" + h, "rejected program `%s` after trivia insertion: %s" % (n, problem),
                     dict(rp, cmd="ferret -t main.fer", expected=[list(d[:3]) + list(d[4:]) for d in r.diags][:8], observed=[list(d[:3]) + list(d[4:]) for d in o.diags][:8]))
    # known-finding probe (F8): `// @extern` in front of a user declaration is a directive, not a comment
    probe = b'import "std/io";\n\n// @extern\nfn main() {\n    io::Println(1);\n}\n'
    pr = run_project({"main.fer": probe}, mode="check")
    if not pr.accepted:
        rep.fail("trivia:extern-directive", "a comment containing `@extern` inserted before a declaration changes acceptance: %s" % [d[2] for d in pr.diags][:1],
                 {"kind": "input", "files": {"main.fer": probe.decode()}, "cmd": "ferret -t main.fer"})
    stats["compiler"] = {"accepted_bases": len(accepted), "rejected_bases": len(rejected), "variants": len(jobs), "diagnostics_matched_to_tokens": compared, "diagnostics_without_token": unmapped}

    ok, outp = lake_build(["FerretVerif.Props.C19"])
    names = theorem_names("C19")
    axioms, discharged = {}, 0
    if ok:
        axioms, _ = audit_theorems("C19", names)
        for nm in names:
            ax = axioms.get(nm)
            if ax is not None and set(ax) <= ALLOWED_AXIOMS: discharged += 1
            else: rep.fail("axioms:" + nm, "theorem %s missing or depends on unexpected axioms %s" % (nm, ax), {"kind": "broken-obligation", "theorem": nm}, no_input=True)
    else:
        log(outp[-3000:])
        rep.fail("proof:C19", "Props/C19.lean no longer builds against the regenerated lexer tables", {"kind": "broken-obligation", "detail": outp[-3000:]}, no_input=True)
    forb = grep_forbidden()
    if forb:
        rep.fail("audit:forbidden", "forbidden construct in Lean sources: %s" % forb[:3], {"kind": "broken-obligation", "hits": forb[:20]}, no_input=True)
    cov = {
        "explanation": "PARTIAL. Kernel-checked (Lean 4): leading white space / block comments / newline-terminated line comments in front of ANY text leave its significant tokens unchanged; line = 1 + line feeds consumed, "
                       "column restarts after a line feed and counts bytes on tab-free text, byte offsets add up, chunking is irrelevant unless a chunk ends with a tab (witness proved). The statement for insertion at EVERY token gap "
                       "(Props/C19 tokens_invariant_statement) is OPEN and, like the parser, covered only by execution: real lexer and whole compiler on texts with trivia inserted before tokens.",
        "obligations": len(names), "discharged": discharged, "open_statements": ["FerretVerif.C19.tokens_invariant_statement"],
        "checker_cmd": "cd /verif/lean && lake build FerretVerif.Props.C19 && #print axioms per theorem",
        "trusted_base": ["Lean 4 kernel", "axioms: " + ", ".join(sorted({a for v in axioms.values() if v for a in v})), "gohook overlay (lex, lex-tables)", "lexgen.py translator", "diagnostic text parser", "token<->diagnostic position matching (start, end or inside of a token)"],
        "theorems": [{"name": nm, "axioms": axioms.get(nm)} for nm in names],
        "evaluations": lex_cases + len(jobs), "distinct_nontrivial": len(set(j["files"]["main.fer"] for j in jobs)),
        "rule": "seeded: bases = repo example programs (accepted ones are run, rejected ones keep their diagnostics) + token-level mutations of them with distinct diagnostic sets and a clean lexing; variants = 12 trivia kinds (blanks, tabs, LF, CRLF, block and line comments "
                "containing quotes, slashes, stars) inserted before 1..4 random tokens, before a random half of the tokens, or before EVERY token; non-trivial = distinct reformatted texts compiled",
        "samples": [{"base": m[1], "plan": {str(k): v.decode("latin1") for k, v in list(m[5].items())[:3]}} for m in jm[:: max(1, len(jm) // 6)]][:6],
        "stats": stats,
    }
    write_evidence(PID, "other", cov, assumptions=["trivia is inserted immediately before a token (never inside one) of a text that lexes without error; an inserted comment may legitimately close an unterminated string/comment opener of a text that does not",
                                                     "a diagnostic `points to the same token` if its line:col is the start or the end of that token, or the same offset inside it, in both texts; messages are compared with digits masked"],
                   violations=len(rep.violations))
    return rep.finish()


if __name__ == "__main__":
    sys.exit(main())
