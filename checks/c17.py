"""C17 — runtime maps and dynamic arrays behave as abstract maps/lists, memory-safely.
Theorems: Props/C17.lean over Model/RtMap.lean (for ANY hash function).  Tie: C harness (#include of the
current map.c/array.c under ASan+UBSan) vs fvdriver rt on random and adversarial histories (exact equality,
including iteration order).  Violation oracle: a Python dict / list (the abstract map/list of the property);
any sanitizer report is a violation with the history as replay."""
import os, sys, json, struct
sys.path.insert(0, os.path.join(os.path.dirname(os.path.abspath(__file__)), "..", "lib"))
from common import *
import c16  # build_crt

PID = "C17"
# precomputed full 32-bit FNV-1a collisions (8-byte and 4-byte keys)
COLL8 = [('1090808f80378aa6', '7a5e13ac7e8482c1'), ('c32238fe2f2915a5', '619ed187eaa7c978'), ('c17bdc731d70d758', '33f468e1c639edb9'),
         ('1b322390028de213', '49fa4d8031774876'), ('ab82ad6e8d6168f7', 'b8191016d247d0ed'), ('97228e487b8d5beb', '457ee42f10309708')]
COLL4 = [('28aa45cc', '70189df2'), ('dff7abbf', '44fd664b'), ('0066f7a4', '4844db96'), ('cd180db7', '66a2dc47')]


def fnv(bs):
    h = 2166136261
    for b in bs:
        h = ((h ^ b) * 16777619) & 0xffffffff
    return h


def key_pool(rng, kind):
    """keys as hex of the bytes the harness receives; biased to collide modulo 16/32/64 buckets"""
    pool = []
    if kind == "i32":
        pool += [struct.pack("<i", v).hex() for v in (0, 1, -1, 2 ** 31 - 1, -2 ** 31, 7, 8, 16, 255, 256)]
        pool += [x for pair in COLL4 for x in pair]
        cand = [struct.pack("<I", rng.next() & 0xffffffff) for _ in range(4000)]
        tgt = fnv(cand[0]) % 64
        pool += [c.hex() for c in cand if fnv(c) % 64 == tgt][:40]
        pool += [c.hex() for c in cand[:40]]
    elif kind == "i64":
        pool += [struct.pack("<q", v).hex() for v in (0, 1, -1, 2 ** 63 - 1, -2 ** 63, 2 ** 32, 2 ** 32 - 1)]
        pool += [x for pair in COLL8 for x in pair]
        cand = [struct.pack("<Q", rng.next()) for _ in range(4000)]
        tgt = fnv(cand[0]) % 64
        pool += [c.hex() for c in cand if fnv(c) % 64 == tgt][:40]
        pool += [c.hex() for c in cand[:40]]
    elif kind == "str":
        words = ["a", "b", "ab", "ba", "key", "Key", "key ", "k" * 40, "\x01", "é", "日本", "x" * 300]
        pool += [w.encode().hex() for w in words]
        cand = [("s%d" % (rng.next() % 100000)).encode() for _ in range(3000)]
        tgt = fnv(cand[0]) % 64
        pool += [c.hex() for c in cand if fnv(c) % 64 == tgt][:40]
        pool += [c.hex() for c in cand[:30]]
    else:
        k = int(kind[1:])
        cand = [bytes(rng.below(256) for _ in range(k)) for _ in range(3000)]
        tgt = fnv(cand[0]) % 64
        pool += [c.hex() for c in cand if fnv(c) % 64 == tgt][:40]
        pool += [c.hex() for c in cand[:30]] + [(b"\x00" * k).hex(), (b"\xff" * k).hex()]
    return [p for p in pool if p] or ["00"]


def gen_history(rng, tier):
    """list of sessions; each a list of protocol lines"""
    sessions = []
    nsess = 40 if tier == "quick" else 400
    for si in range(nsess):
        kind = rng.choice(["i32", "i64", "str", "b3", "b16", "i32", "i64"])
        vsize = rng.choice([1, 4, 8, 8, 24, 0]) if si % 7 else 0
        pool = key_pool(rng, kind)
        lines = []
        if rng.below(3) == 0:
            cnt = rng.choice([0, 1, 5, 11, 12, 13, 24, 25, 48, 100])
            items = []
            for _ in range(cnt):
                items.append("%s=%s" % (rng.choice(pool), val(rng, vsize)))
            lines.append("mfrom %s %d %s" % (kind, vsize, ",".join(items) if items else "-"))
        else:
            lines.append("mnew %s %d" % (kind, vsize))
        nops = rng.choice([5, 20, 60, 150]) if tier == "quick" else rng.choice([20, 100, 400, 1000])
        for _ in range(nops):
            r = rng.below(20)
            k = rng.choice(pool)
            if r < 10: lines.append("mset %s %s" % (k, val(rng, vsize)))
            elif r < 13: lines.append("mget %s" % k)
            elif r < 15: lines.append("mhas %s" % k)
            elif r < 16: lines.append("msize")
            elif r < 17: lines.append("miter")
            else: lines.append("mopt %s" % k)
        lines += ["msize", "miter"]
        sessions.append(lines)
    for si in range(nsess // 2):
        es = rng.choice([1, 4, 8, 24, 3])
        lines = ["anew %d %d" % (es, rng.choice([0, 1, 4, 5, -3, 100]))]
        for _ in range(rng.choice([3, 10, 40, 130])):
            r = rng.below(10)
            if r < 5: lines.append("aapp %s" % val(rng, es))
            elif r < 7: lines.append("aget %d" % rng.choice([-1, 0, 1, 2, 3, 4, 5, 8, 9, 100, -2147483648, 2147483647, rng.below(140)]))
            elif r < 9: lines.append("aset %d %s" % (rng.choice([-1, 0, 1, 3, 4, 7, 8, 200, rng.below(140)]), val(rng, es)))
            else: lines.append("alen")
        lines.append("alen")
        sessions.append(lines)
    return sessions


def val(rng, n):
    return bytes(rng.below(256) for _ in range(n)).hex() if n else "-"


def fit(h, n):
    b = bytes.fromhex(h) if h != "-" else b""
    b = (b + b"\x00" * n)[:n]
    return b.hex() if n else "-"


def oracle(lines):
    """expected outputs by the abstract map / list; None where only sanity applies (iteration order)"""
    out = []
    d, ksz, vsz = {}, 0, 0
    arr, esz = [], 0
    for l in lines:
        f = l.split()
        op = f[0]
        if op == "mnew":
            d = {}; ksz = {"i32": 4, "i64": 8, "str": 0}.get(f[1], int(f[1][1:]) if f[1][0] == "b" else 0); vsz = int(f[2]); out.append("ok")
        elif op == "mfrom":
            d = {}; ksz = {"i32": 4, "i64": 8, "str": 0}.get(f[1], int(f[1][1:]) if f[1][0] == "b" else 0); vsz = int(f[2])
            if f[3] != "-":
                for it in f[3].split(","):
                    k, v = it.split("=")
                    d[fit(k, ksz) if ksz else k] = fit(v, vsz)
            out.append("ok")
        elif op == "mset":
            d[fit(f[1], ksz) if ksz else f[1]] = fit(f[2], vsz); out.append("ok")
        elif op == "mget":
            k = fit(f[1], ksz) if ksz else f[1]
            out.append(d.get(k, "absent"))
        elif op == "mopt":
            k = fit(f[1], ksz) if ksz else f[1]
            out.append("some " + d[k] if k in d else "none")
        elif op == "mhas":
            k = fit(f[1], ksz) if ksz else f[1]
            out.append("true" if k in d else "false")
        elif op == "msize": out.append(str(len(d)))
        elif op == "miter": out.append(("set", sorted("%s=%s" % kv for kv in d.items())))
        elif op == "anew":
            arr = []; esz = int(f[1]); out.append("ok")
        elif op == "aapp":
            arr.append(fit(f[1], esz)); out.append("ok")
        elif op == "aget":
            i = int(f[1]); out.append(arr[i] if 0 <= i < len(arr) else "refused")
        elif op == "aset":
            i = int(f[1])
            if 0 <= i < len(arr): arr[i] = fit(f[2], esz); out.append("ok")
            else: out.append("refused")
        elif op == "alen": out.append(("len", len(arr)))
    return out


def main():
    tier = os.environ.get("VERIF_TIER", "quick")
    rep = Report(PID)
    rng = SplitMix64(seed() * 49979687 + 17)
    try:
        exe = c16.build_crt("rth", "rt_harness.c", [])
        fvdriver()
    except BuildError as e:
        log(str(e))
        rep.fail("tie:build", "C harness / driver no longer builds against the tree (tie broken)",
                 {"kind": "broken-obligation", "correspondence": "crt rt_harness", "detail": str(e)[-2000:]}, no_input=True)
        write_evidence(PID, "proof", {"obligations": 1, "discharged": 0, "checker_cmd": "lake build FerretVerif.Props.C17",
                                      "trusted_base": [], "explanation": "build failed"}, violations=1)
        return rep.finish()
    sessions = gen_history(rng, tier)
    diffs, nops, san = [], 0, 0
    opcount = {}
    for si, lines in enumerate(sessions):
        text = "".join(l + "\n" for l in lines)
        p = run([exe], input=text, env={"ASAN_OPTIONS": "detect_leaks=1:abort_on_error=0", "UBSAN_OPTIONS": "print_stacktrace=1"}, timeout=600)
        cout = p.stdout.split("\n")[:-1]
        if p.returncode != 0 or len(cout) != len(lines):
            san += 1
            # shrink: shortest prefix that still fails
            lo, hi = 1, len(lines)
            while lo < hi:
                mid = (lo + hi) // 2
                q = run([exe], input="".join(l + "\n" for l in lines[:mid]), env={"ASAN_OPTIONS": "detect_leaks=1"}, timeout=600)
                if q.returncode != 0: hi = mid
                else: lo = mid + 1
            rep.fail("sanitizer:%s" % hashlib.sha1(text.encode()).hexdigest()[:10],
                     "memory-safety report / crash in map.c/array.c after %d operations: %s" % (lo, (p.stderr.split("\n") + [""])[1][:200]),
                     {"kind": "input", "ops": lines[:lo], "stderr": p.stderr[-3000:], "cmd": "harness/crt rt_harness (ASan+UBSan+LSan)"})
            continue
        mout = run_driver(["rt"], text).split("\n")[:len(lines)]
        exp = oracle(lines)
        for i, (l, c, m, e) in enumerate(zip(lines, cout, mout, exp)):
            nops += 1
            opcount[l.split()[0]] = opcount.get(l.split()[0], 0) + 1
            if c != m and len(diffs) < 20:
                diffs.append({"session": si, "op": i, "line": l, "c": c[:200], "model": m[:200]})
            bad = None
            if isinstance(e, tuple) and e[0] == "set":
                got = sorted(c.split(",")) if c != "-" else []
                if got != e[1]: bad = "iteration yields %s, the map holds %s" % (got[:6], e[1][:6])
            elif isinstance(e, tuple) and e[0] == "len":
                if int(c.split()[0]) != e[1]: bad = "length %s, expected %d" % (c, e[1])
                elif int(c.split()[1]) < e[1]: bad = "capacity %s below length %d" % (c, e[1])
            elif c != e:
                bad = "returned %s, expected %s" % (c[:80], e[:80])
            if bad:
                rep.fail("hist:%s:%d" % (hashlib.sha1(text.encode()).hexdigest()[:10], i),
                         "after %d operations `%s` %s" % (i, l[:80], bad),
                         {"kind": "input", "ops": lines[:i + 1], "expected": e, "observed": c, "cmd": "harness/crt rt_harness"})
                break

    ok, out = lake_build(["FerretVerif.Props.C17"])
    names = theorem_names("C17")
    axioms, discharged = {}, 0
    if ok:
        axioms, _ = audit_theorems("C17", names)
        for n in names:
            ax = axioms.get(n)
            if ax is not None and set(ax) <= ALLOWED_AXIOMS:
                discharged += 1
            else:
                rep.fail("axioms:" + n, "theorem %s missing or depends on unexpected axioms %s" % (n, ax),
                         {"kind": "broken-obligation", "theorem": n, "axioms": ax}, no_input=True)
    else:
        log(out[-3000:])
        rep.fail("proof:C17", "Props/C17.lean no longer builds", {"kind": "broken-obligation", "detail": out[-3000:]}, no_input=True)
    forb = grep_forbidden()
    if forb:
        rep.fail("audit:forbidden", "forbidden construct in Lean sources: %s" % forb[:3], {"kind": "broken-obligation", "hits": forb[:20]}, no_input=True)
    if diffs and not rep.violations and not rep.known_hit:
        rep.fail("tie:rtmap", "Model/RtMap.lean and map.c/array.c disagree on %d operations although every answer matches the abstract map/list" % len(diffs),
                 {"kind": "broken-obligation", "correspondence": "fvdriver rt vs rt_harness", "diffs": diffs}, no_input=True)

    cov = {
        "obligations": len(names), "discharged": discharged,
        "checker_cmd": "cd /verif/lean && lake build FerretVerif.Props.C17 && #print axioms per theorem",
        "trusted_base": ["Lean 4 kernel", "axioms: " + ", ".join(sorted({a for v in axioms.values() if v for a in v})),
                         "harness/crt/rt_harness.c (#include of the current map.c/array.c), clang ASan+UBSan+LeakSanitizer",
                         "python dict/list oracle", "memory safety: sanitizer-observed only (lifetime has no model counterpart; the model carries the spatial obligations)"],
        "theorems": [{"name": n, "axioms": axioms.get(n)} for n in names],
        "evaluations": nops, "distinct_nontrivial": len([s for s in sessions if len(s) > 30]),
        "rule": "histories of new/from_pairs/set/get/has/size/iterate/get_optional_out over i32, i64, string and byte-blob keys drawn from pools biased to "
                "collide (same bucket modulo 64; precomputed full 32-bit FNV collisions), value sizes {0,1,4,8,24}, sizes crossing the 12/24/48/96 resize thresholds; "
                "array histories of new/append/get/set/len with element sizes {1,3,4,8,24} crossing capacities 4/8/16/…; non-trivial = sessions with > 30 operations",
        "samples": [s[:8] for s in sessions[:3]],
        "generator_distribution": opcount, "sanitizer_reports": san, "model_vs_code_diffs": diffs[:10], "sessions": len(sessions),
    }
    write_evidence(PID, "proof", cov, assumptions=["string keys are NUL-free and outlive the map (the runtime stores the pointer, not a copy)"],
                   violations=len(rep.violations))
    return rep.finish()


import hashlib
if __name__ == "__main__":
    sys.exit(main())
