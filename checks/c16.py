"""C16 — 128/256-bit integer arithmetic is exact modulo 2^N.
Theorems: lean/FerretVerif/Props/C16.lean over Model/Limbs.lean (generic base).
Tie: C harness (#include of the current bigint.c; 64- and 32-bit limbs; ASan+UBSan) vs fvdriver limbs.
Violation oracle: exact integer arithmetic (the property as stated), independent of the model."""
import os, sys, json
sys.path.insert(0, os.path.join(os.path.dirname(os.path.abspath(__file__)), "..", "lib"))
from common import *

PID = "C16"
KINDS = {"i128": (128, True), "u128": (128, False), "i256": (256, True), "u256": (256, False)}
BIN = ["add", "sub", "mul", "div", "mod", "and", "or", "xor", "eq", "lt", "gt", "pow"]


def build_crt(name, src, extra):
    sc = scratch()
    out = os.path.join(sc, name)
    if os.path.exists(out):
        return out
    cmd = ["clang", "-std=gnu99", "-O1", "-g", "-w", "-fsanitize=address,undefined", "-fno-sanitize-recover=undefined",
           "-I", os.path.join(REPO, "runtime", "core"), "-I", os.path.join(REPO, "runtime", "libs"),
           "-o", out, os.path.join(VERIF, "harness", "crt", src), "-lm"] + extra
    p = run(cmd)
    if p.returncode != 0:
        raise BuildError("C harness build failed (%s):\n%s" % (name, p.stderr[-4000:]))
    return out


def hexw(v, bits):
    return "%0*x" % (bits // 4, v & ((1 << bits) - 1))


def signed(v, bits):
    v &= (1 << bits) - 1
    return v - (1 << bits) if v >> (bits - 1) else v


def oracle(op, kind, args):
    """Exact result demanded by the property, or None when the case is outside its domain."""
    if kind.startswith("g"):
        bits, sg = int(kind[1:]) * oracle.w, False
    else:
        bits, sg = KINDS[kind]
    M = 1 << bits
    if op in BIN or op == "cmpu":
        a, b = int(args[0], 16) % M, int(args[1], 16) % M
        sa, sb = (signed(a, bits), signed(b, bits)) if sg else (a, b)
        if op == "add": return hexw(a + b, bits)
        if op == "sub": return hexw(a - b, bits)
        if op == "mul": return hexw(sa * sb, bits)
        if op in ("div", "mod"):
            if b == 0: return None
            q = abs(sa) // abs(sb)
            if (sa < 0) != (sb < 0): q = -q
            r = sa - q * sb
            return hexw(q if op == "div" else r, bits)
        if op == "and": return hexw(a & b, bits)
        if op == "or": return hexw(a | b, bits)
        if op == "xor": return hexw(a ^ b, bits)
        if op == "eq": return "true" if a == b else "false"
        if op == "lt": return "true" if sa < sb else "false"
        if op == "gt": return "true" if sa > sb else "false"
        if op == "cmpu": return "-1" if a < b else ("1" if a > b else "0")
        if op == "pow":
            if sb < 0: return None
            return hexw(pow(sa, sb, M), bits)
    a = int(args[0], 16) % M if op not in ("fromstr",) and args else 0
    if op == "not": return hexw(~a, bits)
    if op == "neg": return hexw(-a, bits)
    if op == "tostr": return str(signed(a, bits) if sg else a)
    if op == "to64": return "%016x" % (a & ((1 << 64) - 1))
    if op == "from64":
        v = int(args[0], 16) & ((1 << 64) - 1)
        return hexw(signed(v, 64) if sg else v, bits)
    if op in ("shl", "shr"):
        s = int(args[1])
        if s < 0: return None
        if op == "shl": return hexw(a << s, bits) if s < bits else hexw(0, bits)
        sa = signed(a, bits) if sg else a
        return hexw(sa >> min(s, bits + 1), bits)
    if op == "fromstr":
        txt = bytes.fromhex(args[0]).decode("latin1") if args else ""
        v = parse_literal(txt, sg)
        if v is None: return None
        return hexw(v, bits)
    return None


oracle.w = 64


def parse_literal(txt, allow_neg):
    """Value of a well-formed integer literal (the domain of the property); None otherwise."""
    import re
    m = re.fullmatch(r"(-?)(0[xX][0-9a-fA-F_]+|0[oO][0-7_]+|0[bB][01_]+|[0-9][0-9_]*)", txt)
    if not m: return None
    neg, body = m.group(1) == "-", m.group(2).replace("_", "")
    if neg and not allow_neg: return None
    if len(body) > 1 and body[1] in "xX": base, ds = 16, body[2:]
    elif len(body) > 1 and body[1] in "oO": base, ds = 8, body[2:]
    elif len(body) > 1 and body[1] in "bB": base, ds = 2, body[2:]
    else: base, ds = 10, body
    if not ds: return None
    v = int(ds, base)
    return -v if neg else v


def grid_values(rng, bits, count):
    limb_choices = [0, 1, (1 << 63) - 1, 1 << 63, (1 << 64) - 2, (1 << 64) - 1, (1 << 32) - 1, 1 << 32, 1 << 31,
                    (1 << 31) - 1, 0xfffffffe00000000, 0x00000001ffffffff]
    vals = []
    n = bits // 64
    for _ in range(count):
        v = 0
        for i in range(n):
            r = rng.below(10)
            limb = rng.next() if r == 0 else rng.choice(limb_choices[:6]) if r < 7 else rng.choice(limb_choices)
            v |= limb << (64 * i)
        vals.append(v)
    return vals


def gen_cases(rng, tier):
    cases = []
    npairs = 400 if tier == "quick" else 6000
    for kind, (bits, sg) in KINDS.items():
        # exhaustive 6-value grid per limb for 128-bit: 36 values -> all pairs for the cheap ops
        six = [0, 1, (1 << 63) - 1, 1 << 63, (1 << 64) - 2, (1 << 64) - 1]
        if bits == 128:
            g = [a | (b << 64) for a in six for b in six]
            for a in g:
                for b in g:
                    for op in ("add", "sub", "mul", "lt"):
                        cases.append((op, kind, [hexw(a, bits), hexw(b, bits)]))
                for op in ("not", "tostr", "to64"):
                    cases.append((op, kind, [hexw(a, bits)]))
        vals = grid_values(rng, bits, npairs * 2) + [0, 1, (1 << bits) - 1, 1 << (bits - 1), (1 << (bits - 1)) - 1]
        for i in range(npairs):
            a, b = rng.choice(vals), rng.choice(vals)
            for op in BIN:
                if op == "pow":
                    if i % 8: continue
                    e = rng.choice([0, 1, 2, 3, 5, 64, 127, 255, rng.below(1 << 16), rng.next()])
                    cases.append((op, kind, [hexw(a if i % 16 else rng.below(7) + ((1 << bits) - 3 if sg else 0), bits), hexw(e, bits)]))
                    continue
                cases.append((op, kind, [hexw(a, bits), hexw(b, bits)]))
                if op in ("div", "mod") and i % 3 == 0:
                    small = rng.choice([1, 2, 3, 10, (1 << 64) - 1, 1 << 64, (1 << 64) + 1, (1 << bits) - 1, (1 << bits) - 2, 1 << (bits - 1)])
                    cases.append((op, kind, [hexw(a, bits), hexw(small, bits)]))
            for op in ("not", "tostr", "to64"):
                cases.append((op, kind, [hexw(a, bits)]))
            for op in ("shl", "shr"):
                s = rng.choice([0, 1, 31, 32, 33, 63, 64, 65, 127, 128, 129, 191, 192, 255, 256, 257, 1000, rng.below(bits + 2)])
                cases.append((op, kind, [hexw(a, bits), str(s)]))
            cases.append(("from64", kind, ["%016x" % rng.choice([0, 1, (1 << 63) - 1, 1 << 63, (1 << 64) - 1, rng.next()])]))
            # text round trip and literals in all four bases
            v = rng.choice(vals) % (1 << bits)
            sv = signed(v, bits) if sg else v
            forms = [str(sv)]
            mag = abs(sv)
            sign = "-" if sv < 0 else ""
            forms += [sign + hex(mag), sign + "0o" + oct(mag)[2:], sign + "0b" + bin(mag)[2:], sign + "0X" + hex(mag)[2:].upper()]
            d = str(mag)
            if len(d) > 4:
                forms.append(sign + d[:2] + "_" + d[2:5] + "_" + d[5:] if len(d) > 5 else sign + d[:2] + "_" + d[2:])
            # out-of-range magnitudes wrap modulo 2^N in the runtime parser
            forms.append(str((1 << bits) + rng.below(1000)))
            f = rng.choice(forms)
            cases.append(("fromstr", kind, [f.encode().hex()]))
        # malformed stream (correspondence only; oracle returns None)
        for txt in ["", " 12", "+5", "-", "0x", "12ab", "0b102", "--3", "1__2", "_1", "9" * 100, "0o8", " \t-0x_f_", "abc", "0b", "+0x10"]:
            cases.append(("fromstr", kind, [txt.encode().hex()] if txt else []))
    # generic limb counts on the static functions (3, 5 limbs: borrow/carry chains across >2 limbs)
    for n in (1, 3, 5):
        for w in (64,):
            pass
    return cases


def gen_generic(rng, tier, w):
    cases = []
    cnt = 300 if tier == "quick" else 4000
    top = (1 << w) - 1
    ch = [0, 1, top, top - 1, 1 << (w - 1), (1 << (w - 1)) - 1]
    for n in (1, 3, 5):
        for _ in range(cnt):
            a = sum((rng.choice(ch) if rng.below(8) else rng.next() & top) << (w * i) for i in range(n))
            b = sum((rng.choice(ch) if rng.below(8) else rng.next() & top) << (w * i) for i in range(n))
            for op in ("add", "sub", "mul", "div", "mod", "cmpu"):
                cases.append((op, "g%d" % n, [hexw(a, n * w), hexw(b, n * w)]))
    return cases


def run_lines(exe, args, lines):
    p = run([exe] + args, input="".join(l + "\n" for l in lines), timeout=3000,
            env={"ASAN_OPTIONS": "detect_leaks=0", "UBSAN_OPTIONS": "print_stacktrace=1"})
    out = p.stdout.split("\n")
    if out and out[-1] == "":
        out.pop()
    return p.returncode, out, p.stderr


def main():
    tier = os.environ.get("VERIF_TIER", "quick")
    rep = Report(PID)
    rng = SplitMix64(seed() * 1000003 + 16)
    cases = gen_cases(rng, tier)
    stats = {"correspondence": {}, "oracle_checked": 0, "oracle_skipped_outside_domain": 0, "sanitizer_reports": 0}
    diffs_model = []
    try:
        exes = {64: build_crt("bigint64", "bigint_harness.c", []),
                32: build_crt("bigint32", "bigint_harness.c", ["-U__SIZEOF_INT128__"])}
        drv = fvdriver()
    except BuildError as e:
        log(str(e))
        rep.fail("tie:build", "C harness / driver no longer builds against the tree (tie broken)",
                 {"kind": "broken-obligation", "correspondence": "crt bigint_harness", "detail": str(e)[-2000:]}, no_input=True)
        write_evidence(PID, "proof", {"obligations": 1, "discharged": 0, "checker_cmd": "lake build FerretVerif.Props.C16",
                                      "trusted_base": [], "explanation": "build failed"}, violations=1)
        return rep.finish()

    opcount = {}
    for w in (64, 32):
        oracle.w = w
        allc = cases + gen_generic(SplitMix64(seed() + w), tier, w)
        lines = ["%s %s %s" % (op, k, " ".join(a)) for op, k, a in allc]
        for mode in ([], ["ptr"]):
            rc, cout, cerr = run_lines(exes[w], mode, lines)
            tag = "c%d%s" % (w, "-ptr" if mode else "")
            if rc != 0 or len(cout) != len(lines):
                # crash / sanitizer report: locate the first line that fails alone
                stats["sanitizer_reports"] += 1
                idx = len(cout)
                bad = lines[idx] if idx < len(lines) else "?"
                rep.fail("crash:%s:%s" % (tag, bad), "bigint.c aborted (sanitizer report or crash) on `%s` (%d-bit limbs)" % (bad, w),
                         {"kind": "input", "line": bad, "limb_bits": w, "stderr": cerr[-3000:], "cmd": "harness/crt bigint_harness"})
                continue
            if mode:
                # ptr variants must agree with the by-value variants
                if cout != base_out:
                    j = next(i for i in range(len(lines)) if cout[i] != base_out[i])
                    rep.fail("ptr:%s" % lines[j], "_ptr wrapper disagrees with by-value function on `%s`" % lines[j],
                             {"kind": "input", "line": lines[j], "limb_bits": w, "observed": cout[j], "expected": base_out[j]})
                continue
            base_out = cout
            mout = run_driver(["limbs"], "".join("%d %s\n" % (w, l) for l in lines)).split("\n")
            nd = 0
            for i, (op, k, a) in enumerate(allc):
                opcount[op] = opcount.get(op, 0) + 1
                exp = oracle(op, k, a)
                if exp is None:
                    stats["oracle_skipped_outside_domain"] += 1
                else:
                    stats["oracle_checked"] += 1
                    if cout[i] != exp:
                        key = "wrong:%d:%s" % (w, lines[i])
                        rep.fail(key, "bigint.c (%d-bit limbs) computes `%s` = %s, exact result is %s" % (w, lines[i], cout[i], exp),
                                 {"kind": "input", "line": lines[i], "limb_bits": w, "observed": cout[i], "expected": exp,
                                  "cmd": "harness/crt bigint_harness (stdin line protocol)"})
                if cout[i] != mout[i]:
                    nd += 1
                    if len(diffs_model) < 20:
                        diffs_model.append({"line": lines[i], "w": w, "c": cout[i], "model": mout[i], "exact": exp})
            stats["correspondence"][tag] = {"cases": len(lines), "diffs": nd}

    # proof obligations
    ok, out = lake_build(["FerretVerif.Props.C16"])
    names = theorem_names("C16")
    axioms = {}
    discharged = 0
    if ok:
        axioms, _ = audit_theorems("C16", names)
        for n in names:
            ax = axioms.get(n)
            if ax is not None and set(ax) <= ALLOWED_AXIOMS:
                discharged += 1
            else:
                rep.fail("axioms:" + n, "theorem %s missing or depends on unexpected axioms %s" % (n, ax),
                         {"kind": "broken-obligation", "theorem": n, "axioms": ax}, no_input=True)
    else:
        log(out[-3000:])
        rep.fail("proof:C16", "Props/C16.lean no longer builds", {"kind": "broken-obligation", "detail": out[-3000:]}, no_input=True)
    forb = grep_forbidden()
    if forb:
        rep.fail("audit:forbidden", "forbidden construct in Lean sources: %s" % forb[:3], {"kind": "broken-obligation", "hits": forb[:20]}, no_input=True)

    if diffs_model and not rep.violations and not rep.known_hit:
        # model and code disagree but the exact oracle found no wrong result: the tie is broken
        rep.fail("tie:limbs", "Model/Limbs.lean and bigint.c disagree on %d lines although no result contradicts exact arithmetic"
                 % len(diffs_model), {"kind": "broken-obligation", "correspondence": "fvdriver limbs vs bigint_harness", "diffs": diffs_model}, no_input=True)

    total = sum(v["cases"] for v in stats["correspondence"].values())
    cov = {
        "obligations": len(names), "discharged": discharged,
        "checker_cmd": "cd /verif/lean && lake build FerretVerif.Props.C16 && #print axioms per theorem",
        "trusted_base": ["Lean 4 kernel", "axioms: " + ", ".join(sorted({a for v in axioms.values() if v for a in v})),
                         "harness/crt/bigint_harness.c (#include of the current bigint.c), clang ASan+UBSan",
                         "Python exact-integer oracle for the violation verdict", "fvdriver limbs (compiled model)"],
        "theorems": [{"name": n, "axioms": axioms.get(n)} for n in names],
        "evaluations": total, "distinct_nontrivial": len({(op, k, tuple(a)) for op, k, a in cases}),
        "rule": "operand tuples from the limb-boundary grid {0,1,2^63-1,2^63,2^64-2,2^64-1,...}^n (exhaustive 36x36 pairs for 128-bit add/sub/mul/lt), "
                "random limbs, all four bases for text, malformed text; distinct = distinct (op,kind,args) lines; each run on 64- and 32-bit limb builds, by value and via _ptr",
        "samples": ["%s %s %s" % (op, k, " ".join(a)) for op, k, a in cases[1000:len(cases):max(1, len(cases) // 8)]],
        "generator_distribution": opcount,
        "model_vs_code_diffs": diffs_model[:10],
    }
    cov.update(stats)
    write_evidence(PID, "proof", cov,
                   assumptions=["division/modulo by zero, negative exponents and negative shift counts are outside the property's domain (correspondence only)",
                                "x86-64; 32-bit-limb configuration exercised by a second build with -U__SIZEOF_INT128__"],
                   violations=len(rep.violations))
    return rep.finish()


if __name__ == "__main__":
    sys.exit(main())
