"""C12 — visibility by capitalisation is enforced across modules and types.
Theorems: Props/C12.lean over Model/Visibility.lean (isExported on identifiers, cross-module rule, private field only
through a receiver identifier, for every access path).  Ties: `is-exported` correspondence with utils.IsExported on
arbitrary byte strings; the decision functions are tied through the whole compiler by the enumerated projects below:
symbol kinds {function, constant, variable, struct type, enum type} x {private, exported} x import shapes {plain,
aliased, repeated, through a chain} x access positions, and private / exported fields x access forms x places."""
import os, sys, json, hashlib
sys.path.insert(0, os.path.join(os.path.dirname(os.path.abspath(__file__)), "..", "lib"))
from common import *
from ferretrun import *

PID = "C12"

# module m: every symbol kind in both spellings
def module_m(priv, pub):
    return ('import "std/io";\n'
            "fn %(f)s() -> i32 { return 1; }\nfn %(F)s() -> i32 { return %(f)s() + 1; }\n"
            "const %(k)s: i32 = 10;\nconst %(K)s: i32 = %(k)s + 1;\n"
            "let %(v)s: i32 = 20;\nlet %(V)s: i32 = 21;\n"
            "type %(t)s struct { .A: i32 };\ntype %(T)s struct { .A: i32 };\n"
            "type %(e)s enum { X, Y };\ntype %(E)s enum { X, Y };\n"
            "fn Own() -> i32 {\n    let a: %(t)s = { .A = 7 } as %(t)s;\n    let q := %(e)s::X;\n    return %(f)s() + a.A;\n}\n") % dict(priv, **pub)


PRIV = {"f": "helper", "k": "limit", "v": "counter", "t": "node", "e": "mode"}
PUB = {"F": "Helper", "K": "Limit", "V": "Counter", "T": "Node", "E": "Mode"}
PRIV2 = {"f": "_h", "k": "k", "v": "zz9", "t": "t_", "e": "e"}

IMPORTS = {
    "plain": ('import "app/m";\n', "m"),
    "aliased": ('import "app/m" as lib;\n', "lib"),
    "with-other": ('import "std/io";\nimport "app/other";\nimport "app/m";\n', "m"),
    "chain": ('import "app/mid";\nimport "app/m";\n', "m"),
}
# value positions for a function / constant / variable: {X} = qualified use (call for functions)
VALUE_POS = {
    "statement": "let z: i32 = {X};", "operand": "let z: i32 = {X} + 1;", "argument": "let z: i32 = two({X}, 1);", "condition": "if {X} > 0 {{ }}", "while-cond": "while {X} < 0 {{ }}",
    "match-scrutinee": "match {X} {{ 1 => {{ }} _ => {{ }} }}", "struct-field-init": "let q: Loc = {{ .F = {X} }} as Loc;", "array-element": "let ar: [2]i32 = [1, {X}];", "return-value": "if loc > 5 {{ return {X}; }}",
    "compound-rhs": "loc += {X};", "index": "let z: i32 = dr[{X} - {X}];", "closure-body": "let cl := fn() -> i32 {{ return {X}; }};", "nested-block": "{{ {{ let z: i32 = {X}; }} }}",
    "else-branch": "if loc > 5 {{ }} else {{ let z: i32 = {X}; }}", "for-bound": "for i in lo..{X} {{ }}", "println": "io::Println({X});", "cast-operand": "let z: i64 = {X} as i64;",
}
TYPE_POS = {
    "let-annotation": ("", "let z: {T} = {{ .A = 1 }} as {T};"), "param-type": ("fn usesP(a: {T}) -> i32 {{ return 1; }}\n", ""), "return-type": ("fn retP() -> {T} {{ return {{ .A = 1 }} as {T}; }}\n", ""),
    "cast-target": ("", "let z := {{ .A = 1 }} as {T};"), "field-type": ("type Wrap struct {{ .W: {T} }};\n", ""), "array-elem-type": ("", "let z: []{T} = [];"),
    "optional-type": ("", "let z: {T}? = none;"), "receiver-type": ("fn (r: {T}) meth() -> i32 {{ return 1; }}\n", ""), "ref-param-type": ("fn usesR(a: &{T}) -> i32 {{ return 1; }}\n", ""),
}
ENUM_POS = {"value": "let z := {T}::X;", "compare": "let y := {T}::X; if y == {T}::Y {{ }}", "match-pattern": "let y := {T}::X; match y {{ {T}::X => {{ }} _ => {{ }} }}"}
MAIN_PRE = 'import "std/io";\n%s' \
           "type Loc struct { .F: i32 };\nfn two(a: i32, b: i32) -> i32 { return a + b; }\n%s" \
           "fn host() -> i32 {\n    let loc: i32 = 0;\n    let dr: []i32 = [1, 2];\n    let lo: i32 = 0;\n    %s\n    return 0;\n}\nfn main() { }\n"


def project(imp, decls, stmt, priv=PRIV):
    files = {"main.fer": MAIN_PRE % (IMPORTS[imp][0].replace('import "std/io";\n', ""), decls, stmt), "m.fer": module_m(priv, PUB)}
    if imp == "with-other": files["other.fer"] = "fn O() -> i32 { return 3; }\n"
    if imp == "chain": files["mid.fer"] = 'import "app/m";\nfn Mid() -> i32 { return m::Helper(); }\n'
    return files


# ---- fields
ACCT = ("type Inner struct { .Open: i32, .shut: i32 };\ntype Acct struct { .Pub: i32, .secret: i32, .In: Inner };\n"
        "fn New() -> Acct { return { .Pub = 1, .secret = 2, .In = { .Open = 3, .shut = 4 } as Inner } as Acct; }\n"
        "fn (a: &'Acct) Dep(d: i32) { a.secret = a.secret + d; a.Pub = a.secret; }\nfn (a: &Acct) Bal() -> i32 { return a.secret + a.Pub; }\n"
        "fn (i: &'Inner) Lock() { i.shut = i.shut + 1; }\n")
FIELD_FORMS = {"read": "let z: i32 = {P};", "write": "{P} = 5;", "compound": "{P} += 1;", "incdec": "{P}++;", "borrow": "let r: &i32 = &{P};", "mut-borrow": "let r: &'i32 = &'{P};", "argument": "let z: i32 = two({P}, 1);",
               "condition": "if {P} > 0 {{ }}", "match-scrutinee": "match {P} {{ 1 => {{ }} _ => {{ }} }}", "operand": "let z: i32 = 1 + {P};", "println": "io::Println({P});", "closure": "let cl := fn() -> i32 {{ return {P}; }};",
               "return": "return {P};", "array-element": "let ar: [2]i32 = [{P}, 1];"}
# (place name, declarations before, statement prefix creating the base `x`, base expression pattern) — all OUTSIDE a method of Acct
FIELD_PLACES = {
    "free-fn-other-module": ("main", "", "let x: acct::Acct = acct::New();", "x.{f}"),
    "free-fn-same-module": ("acct", "", "let x: Acct = New();", "x.{f}"),
    "nested-selector": ("main", "type Bank struct { .Vault: acct::Acct };\n", "let b: Bank = { .Vault = acct::New() } as Bank;", "b.Vault.{f}"),
    "indexed": ("main", "", "let xs: [1]acct::Acct = [acct::New()];", "xs[0].{f}"),
    "parenthesised": ("main", "", "let x: acct::Acct = acct::New();", "(x).{f}"),
    "call-result": ("main", "", "", "acct::New().{f}"),
    "method-of-another-type": ("main-method", "type Other struct { .K: i32 };\n", "let x: acct::Acct = acct::New();", "x.{f}"),
    "receiver-of-another-type-nested": ("main-method-nested", "type Bank struct { .Vault: acct::Acct };\n", "", "self.Vault.{f}"),
    "non-receiver-param-in-own-method": ("acct-method-param", "", "", "other.{f}"),
    "inner-through-receiver": ("acct-method-inner", "", "", "a.In.{f2}"),
}


def field_project(place, form, field_private):
    where, decls, pre, base = FIELD_PLACES[place]
    f = "secret" if field_private else "Pub"
    f2 = "shut" if field_private else "Open"
    p = base.format(f=f, f2=f2)
    st = FIELD_FORMS[form].format(P=p)
    io = 'import "std/io";\n'
    two = "fn two(a: i32, b: i32) -> i32 { return a + b; }\n"
    acct = io + ACCT
    if where == "main":
        main = io + 'import "app/acct";\n' + two + decls + "fn host() -> i32 {\n    %s\n    %s\n    return 0;\n}\nfn main() { }\n" % (pre, st)
    elif where == "acct":
        acct += two + "fn host() -> i32 {\n    %s\n    %s\n    return 0;\n}\n" % (pre, st)
        main = io + 'import "app/acct";\nfn main() { }\n'
    elif where == "main-method":
        main = io + 'import "app/acct";\n' + two + decls + "fn (self: &'Other) host() -> i32 {\n    %s\n    %s\n    return 0;\n}\nfn main() { }\n" % (pre, st)
    elif where == "main-method-nested":
        main = io + 'import "app/acct";\n' + two + decls + "fn (self: &'Bank) host() -> i32 {\n    %s\n    return 0;\n}\nfn main() { }\n" % st
    elif where == "acct-method-param":
        acct += two + "fn (a: &'Acct) host(other: &'Acct) -> i32 {\n    %s\n    return 0;\n}\n" % st
        main = io + 'import "app/acct";\nfn main() { }\n'
    else:   # acct-method-inner: a private field of ANOTHER type reached through the receiver of Acct
        acct += two + "fn (a: &'Acct) host() -> i32 {\n    %s\n    return 0;\n}\n" % st
        main = io + 'import "app/acct";\nfn main() { }\n'
    return {"main.fer": main, "acct.fer": acct}


def main():
    tier = os.environ.get("VERIF_TIER", "quick")
    rep = Report(PID)
    rng = SplitMix64(seed() * 67867979 + 12)
    try:
        hook = build_gohook(); build_ferret(); fvdriver()
    except BuildError as e:
        log(str(e))
        rep.fail("tie:build", "compiler / hook / driver no longer builds (tie broken)", {"kind": "broken-obligation", "detail": str(e)[-2000:]}, no_input=True)
        write_evidence(PID, "other", {"explanation": "build failed", "obligations": 1, "discharged": 0}, violations=1)
        return rep.finish()
    # ---- IsExported correspondence
    names = [b"", b"a", b"A", b"Z", b"z", b"_A", b"aB", b"Ab", b"9A", b"\xc3\x84pfel", b"\xc3\xa4", b"@", b"[", b"`", b"{", b"A_", b"Z9", b"M"]
    names += [bytes(rng.below(256) for _ in range(1 + rng.below(6))) for _ in range(300)]
    names += [bytes([c]) for c in range(256)]
    inp = "".join((n.hex() or "-") + "\n" for n in names)
    go = run([hook, "is-exported"], input=inp, timeout=120).stdout.split("\n")
    lean = run_driver(["is-exported"], inp).split("\n")
    exp_diffs = [{"name_hex": n.hex(), "go": g, "model": l} for n, g, l in zip(names, go, lean) if g != l]
    for n, g in zip(names, go):
        if n and (n[0:1].isalpha() or n[0:1] == b"_") and all(c < 128 for c in n):
            want = "true" if n[0:1].isupper() else "false"
            if g != want:
                rep.fail("isexported:" + n.hex(), "utils.IsExported(%r) = %s: an identifier is exported iff its first letter is uppercase" % (n, g), {"kind": "input", "name_hex": n.hex(), "cmd": "gohook is-exported", "expected": want, "observed": g})

    cases = []      # (key, files, expect_accept)
    imps = list(IMPORTS)
    def add(key, files, accept): cases.append((key, files, accept))
    # values: function / constant / variable
    for kind, pk, uk, call in (("fn", "f", "F", "()"), ("const", "k", "K", ""), ("var", "v", "V", "")):
        for pos, tmpl in VALUE_POS.items():
            for imp in (imps if tier != "quick" else [imps[(len(cases) + 1) % len(imps)], "plain"]):
                q = IMPORTS[imp][1]
                for privset, tag in ((PRIV, "lower"), (PRIV2, "odd")):
                    if tag == "odd" and (tier == "quick" and rng.below(3)): continue
                    add("private|%s|%s|%s|%s" % (kind, pos, imp, tag), project(imp, "", tmpl.format(X="%s::%s%s" % (q, privset[pk], call)), privset), False)
                add("exported|%s|%s|%s" % (kind, pos, imp), project(imp, "", tmpl.format(X="%s::%s%s" % (q, PUB[uk], call))), True)
        # writes to a module variable of another module
    for imp in imps:
        q = IMPORTS[imp][1]
        add("private|var|assign|%s" % imp, project(imp, "", "%s::%s = 5;" % (q, PRIV["v"])), False)
    # types
    for pos, (decl, stmt) in TYPE_POS.items():
        for imp in (imps if tier != "quick" else ["plain", "aliased"]):
            q = IMPORTS[imp][1]
            add("private|type|%s|%s" % (pos, imp), project(imp, decl.format(T="%s::%s" % (q, PRIV["t"])), stmt.format(T="%s::%s" % (q, PRIV["t"]))), False)
            if pos != "receiver-type":       # methods cannot be declared on another module's type, exported or not
                add("exported|type|%s|%s" % (pos, imp), project(imp, decl.format(T="%s::%s" % (q, PUB["T"])), stmt.format(T="%s::%s" % (q, PUB["T"]))), True)
    for pos, tmpl in ENUM_POS.items():
        for imp in (imps if tier != "quick" else ["plain", "aliased"]):
            q = IMPORTS[imp][1]
            add("private|enum|%s|%s" % (pos, imp), project(imp, "", tmpl.format(T="%s::%s" % (q, PRIV["e"]))), False)
            add("exported|enum|%s|%s" % (pos, imp), project(imp, "", tmpl.format(T="%s::%s" % (q, PUB["E"]))), True)
    # the UNQUALIFIED spelling: a private symbol of an imported module must not become nameable by its bare name either
    for kind, pk, call in (("fn", "f", "()"), ("const", "k", ""), ("var", "v", "")):
        for pos, tmpl in VALUE_POS.items():
            for imp in (imps if tier != "quick" else ["plain"]):
                add("private-bare|%s|%s|%s" % (kind, pos, imp), project(imp, "", tmpl.format(X="%s%s" % (PRIV[pk], call))), False)
    for pos, (decl, stmt) in TYPE_POS.items():
        for imp in (imps if tier != "quick" else ["plain", "aliased"]):
            add("private-bare|type|%s|%s" % (pos, imp), project(imp, decl.format(T=PRIV["t"]), stmt.format(T=PRIV["t"])), False)
    for pos, tmpl in ENUM_POS.items():
        for imp in (imps if tier != "quick" else ["plain"]):
            add("private-bare|enum|%s|%s" % (pos, imp), project(imp, "", tmpl.format(T=PRIV["e"])), False)
    # own module: everything is visible (the module m itself uses its private symbols in Own()) — covered by every accepted case
    # fields
    for place in FIELD_PLACES:
        for form in FIELD_FORMS:
            add("private-field|%s|%s" % (place, form), field_project(place, form, True), False)
            if form in ("read", "write", "compound", "argument", "closure") and not (place == "call-result" and form in ("write", "compound")):
                add("exported-field|%s|%s" % (place, form), field_project(place, form, False), True)
    # controls: methods of the type use the private field through the receiver; a literal may initialise private fields from outside
    io = 'import "std/io";\n'
    add("control|methods-use-private-field", {"main.fer": io + 'import "app/acct";\nfn main() {\n    let x: acct::Acct = acct::New();\n    x.Dep(3);\n    io::Println(x.Bal());\n}\n', "acct.fer": io + ACCT}, True)
    add("control|literal-initialises-private-field", {"main.fer": io + 'import "app/acct";\nfn main() {\n    let x: acct::Acct = { .Pub = 1, .secret = 2, .In = { .Open = 3, .shut = 4 } as acct::Inner } as acct::Acct;\n    io::Println(x.Pub);\n}\n', "acct.fer": io + ACCT}, True)
    add("control|receiver-in-every-form", {"main.fer": io + 'import "app/acct";\nfn main() { }\n', "acct.fer": io + ACCT + "fn two(a: i32, b: i32) -> i32 { return a + b; }\nfn (a: &'Acct) All() -> i32 {\n    a.secret = 5;\n    a.secret += 1;\n    a.secret++;\n    let z: i32 = two(a.secret, 1);\n    if a.secret > 0 { }\n    match a.secret { 1 => { } _ => { } }\n    io::Println(a.secret);\n    return a.secret;\n}\n"}, True)

    res = run_many([{"files": c[1], "mode": "check", "timeout": 60} for c in cases])
    st = {"cases": len(cases), "must_reject": 0, "rejected": 0, "must_accept": 0, "accepted": 0}
    VIS = ("not exported", "is private", "private")
    for (key, files, accept), r in zip(cases, res):
        errs = [d[2] for d in r.diags if d[0] == "error"]
        if r.compile_rc not in (0, 1):
            rep.fail("crash:" + key, "compiler crashed (exit %s) on visibility case %s" % (r.compile_rc, key), {"kind": "input", "files": files, "observed": strip_ansi(r.compile_out)[-800:]})
            continue
        if accept:
            st["must_accept"] += 1
            if r.accepted: st["accepted"] += 1
            else:
                rep.fail("hidden:" + key, "exported / legitimate access is rejected (%s): %s" % (key, errs[:2]), {"kind": "input", "files": files, "cmd": "ferret -t main.fer", "expected": "accepted", "observed": strip_ansi(r.compile_out)[-600:]})
        else:
            st["must_reject"] += 1
            vis = [e for e in errs if any(v in e for v in VIS)]
            if r.compile_rc == 1 and errs:
                st["rejected"] += 1
            else:
                f = key.split("|")
                rep.fail("leak:" + key, "private %s is accessible from outside (%s): the program is accepted" % (f[1] if f[0] in ("private", "private-bare") else "field", key),
                         {"kind": "input", "files": files, "cmd": "ferret -t main.fer", "expected": "error: not exported / private", "observed": "accepted"})

    ok, outp = lake_build(["FerretVerif.Props.C12"])
    tn = theorem_names("C12")
    axioms, discharged = {}, 0
    if ok:
        axioms, _ = audit_theorems("C12", tn)
        for nm in tn:
            ax = axioms.get(nm)
            if ax is not None and set(ax) <= ALLOWED_AXIOMS: discharged += 1
            else: rep.fail("axioms:" + nm, "theorem %s missing or depends on unexpected axioms %s" % (nm, ax), {"kind": "broken-obligation", "theorem": nm}, no_input=True)
    else:
        log(outp[-3000:])
        rep.fail("proof:C12", "Props/C12.lean no longer builds", {"kind": "broken-obligation", "detail": outp[-3000:]}, no_input=True)
    forb = grep_forbidden()
    if forb:
        rep.fail("audit:forbidden", "forbidden construct in Lean sources: %s" % forb[:3], {"kind": "broken-obligation", "hits": forb[:20]}, no_input=True)
    if exp_diffs and not any(v[0].startswith("isexported") for v in rep.violations):
        rep.fail("tie:isexported", "Model/Visibility.isExported and utils.IsExported disagree on %d names (first %s)" % (len(exp_diffs), exp_diffs[0]), {"kind": "broken-obligation", "correspondence": "fvdriver is-exported vs gohook is-exported", "diffs": exp_diffs[:10]}, no_input=True)
    cov = {
        "explanation": "PARTIAL: the resolver / type checker traversal is not modelled. Kernel-checked: isExported on identifiers = uppercase initial; private symbols are hidden from other modules, exported ones visible everywhere, a module sees all its own symbols; "
                       "a private field is reachable only through a receiver identifier — through every longer access path (any depth) it is rejected; exported fields through every path. Executed: enumerated two- to four-module projects.",
        "obligations": len(tn), "discharged": discharged,
        "checker_cmd": "cd /verif/lean && lake build FerretVerif.Props.C12 && #print axioms per theorem",
        "trusted_base": ["Lean 4 kernel", "axioms: " + ", ".join(sorted({a for v in axioms.values() if v for a in v})), "gohook overlay (is-exported)", "project templates", "any error diagnostic counts as rejection of a must-reject case"],
        "theorems": [{"name": nm, "axioms": axioms.get(nm)} for nm in tn],
        "evaluations": len(cases) + len(names), "distinct_nontrivial": st["must_reject"],
        "rule": "symbols {fn, const, var} x %d value positions, {struct type} x %d type positions, {enum} x %d positions, each private (two spellings: lowercase word, odd forms like `_h`, `k`, `t_`) and exported, x import shapes {plain, aliased, next to another import, "
                "also imported by an intermediate module}; fields {private, exported} x %d access forms x %d places outside the methods of the type (other module, same module free function, nested selector, indexed, parenthesised, call result, method of "
                "another type, nested through another type's receiver, non-receiver parameter inside an own method, another type's private field through the receiver); controls: methods using the field through the receiver in every form, literals initialising private fields; "
                "non-trivial = must-reject cases" % (len(VALUE_POS), len(TYPE_POS), len(ENUM_POS), len(FIELD_FORMS), len(FIELD_PLACES)),
        "exhaustive": tier != "quick",
        "samples": [c[0] for c in cases[3:: max(1, len(cases) // 8)]][:8], "model_vs_code_diffs": exp_diffs[:5], "stats": st,
    }
    write_evidence(PID, "other", cov, assumptions=["methods are not among the symbol kinds the property lists (function, constant, variable, type): calling a lowercase method from another module is not checked"], violations=len(rep.violations))
    return rep.finish()


if __name__ == "__main__":
    sys.exit(main())
