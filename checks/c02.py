"""C02 — the QBE (native) and WebAssembly back ends agree.
Every catalogue probe and every random program is compiled for both targets; where both targets accept, the
native executable and the .wasm module (under node with the shipped runtime.js) must print the same lines and
terminate the same way — and both are also compared with the Lean reference interpreter (3-way)."""
import os, sys, json, hashlib
sys.path.insert(0, os.path.join(os.path.dirname(os.path.abspath(__file__)), "..", "lib"))
from common import *
from wholeprog import *
import wasmsel

PID = "C02"
COMMON_FEATS = {"cast", "struct", "method", "method-val", "struct-fn", "fixed-array", "dyn-array", "while", "for", "recursion", "eval-order", "eval-order-struct"}


def term_class(r):
    if r.timeout: return "timeout"
    return "normal" if r.run_rc == 0 else "abnormal"


def agree(rn, rw):
    """None when the two targets agree, else description"""
    if term_class(rn) != term_class(rw):
        return "native terminates %s (exit %s), wasm %s (exit %s, %s)" % (term_class(rn), rn.run_rc, term_class(rw), rw.run_rc, rw.stderr[:120].replace("\n", " "))
    a, b = rn.lines, rw.lines
    if a != b:
        j = next((k for k in range(min(len(a), len(b))) if a[k] != b[k]), min(len(a), len(b)))
        return "output line %d: native %r, wasm %r" % (j, a[j] if j < len(a) else None, b[j] if j < len(b) else None)
    return None


def main():
    tier = os.environ.get("VERIF_TIER", "quick")
    rep = Report(PID)
    stats = {}
    try:
        build_ferret(); fvdriver()
    except BuildError as e:
        log(str(e))
        rep.fail("tie:build", "compiler / driver no longer builds (tie broken)", {"kind": "broken-obligation", "detail": str(e)[-2000:]}, no_input=True)
        write_evidence(PID, "other", {"explanation": "build failed", "evaluations": 1, "distinct_nontrivial": 2}, violations=1)
        return rep.finish()
    base = json.load(open(BASELINE))
    # ---- catalogue on both targets
    nat = run_catalogue("native")
    was = run_catalogue("wasm")
    both, outside = 0, 0
    for name in nat:
        kn, dn, sx, m, rn = nat[name]
        kw, dw, _, _, rw = was[name]
        if not (rn.accepted and rn.artifact and rw.accepted and rw.artifact):
            outside += 1          # not accepted by both back ends: outside the property's domain
            continue
        both += 1
        d = agree(rn, rw)
        if d:
            rep.fail("probe:%s:wasm" % name, "construct form `%s`: the two back ends disagree: %s" % (name, d),
                     {"kind": "input", "probe": name, "files": {"main.fer": m["text"]}, "native": rn.lines[:40], "wasm": rw.lines[:40],
                      "reference": m.get("lines"), "cmd": "ferret -o out main.fer; ferret -target wasm -o out.wasm main.fer; node harness/wasmrun.mjs out.wasm"})
    stats["catalogue"] = {"probes": len(nat), "accepted_by_both": both, "outside_common_domain": outside}
    # ---- random programs over the common fragment
    n = 100 if tier == "quick" else 1200
    seed0 = seed() * 100000 + 2000
    progs = [coregen.Gen(SplitMix64(seed0 + i), COMMON_FEATS).program() for i in range(n)]
    ms = model_run(progs)
    rn = run_many([{"files": {"main.fer": m.get("text", "")}, "mode": "run", "target": "native", "timeout": 30} for m in ms])
    rw = run_many([{"files": {"main.fer": m.get("text", "")}, "mode": "run", "target": "wasm", "timeout": 30} for m in ms])
    nboth, lines, ref_disagree = 0, 0, 0
    for i, (m, a, b) in enumerate(zip(ms, rn, rw)):
        if "text" not in m:
            continue
        if not (a.accepted and a.artifact and b.accepted and b.artifact):
            continue
        nboth += 1
        lines += len(a.lines)
        d = agree(a, b)
        if d:
            rep.fail("prog:wasm:%s" % hashlib.sha1(m["text"].encode()).hexdigest()[:12], "generated program (seed %d): the two back ends disagree: %s" % (seed0 + i, d),
                     {"kind": "input", "files": {"main.fer": m["text"]}, "native": a.lines[:60], "wasm": b.lines[:60], "reference": m.get("lines"), "seed": seed0 + i})
        elif m.get("term") == "exit" and a.lines != m["lines"]:
            ref_disagree += 1     # both agree with each other but not with the reference: C01's business
    stats["random"] = {"programs": n, "accepted_by_both": nboth, "lines_compared": lines, "agree_but_differ_from_reference": ref_disagree}
    if nboth < n // 2:
        rep.fail("domain:collapsed", "fewer than half of the generated programs are accepted by both back ends (%d/%d): the common domain collapsed" % (nboth, n),
                 {"kind": "broken-obligation", "correspondence": "common fragment of native and wasm"}, no_input=True)

    # ---- instruction selection: regenerated tables + observations on both targets
    try:
        sel = wasmsel.check_wasm_selection(rep, PID, tier, stats)
    except BuildError as e:
        rep.fail("tie:wasmsel", "instruction-selection tie cannot run", {"kind": "broken-obligation", "detail": str(e)[-2000:]}, no_input=True)
        sel = stats["selection"] = {"wasm_rows": 0, "wasm_rows_of_proved_shape": 0, "native_rows": 0, "observations_compared": 0, "native_vs_wasm_disagreements": 0, "agree_but_off_specification": 0}

    ok, out = lake_build(["FerretVerif.Props.C02"])
    names = theorem_names("C02")
    axioms, discharged = {}, 0
    if ok:
        axioms, _ = audit_theorems("C02", names)
        for nm in names:
            ax = axioms.get(nm)
            if ax is not None and set(ax) <= ALLOWED_AXIOMS: discharged += 1
            else: rep.fail("axioms:" + nm, "theorem %s missing or depends on unexpected axioms %s" % (nm, ax), {"kind": "broken-obligation", "theorem": nm}, no_input=True)
    else:
        log(out[-3000:])
        rep.fail("proof:C02", "Props/C02.lean no longer builds", {"kind": "broken-obligation", "detail": out[-3000:]}, no_input=True)
    cov = {
        "explanation": "PARTIAL. Theorems (kernel-checked, %d/%d) cover the layout computation at both pointer sizes (C18), the width-wrapping of the shared "
                       "reference semantics, and INSTRUCTION SELECTION of both back ends: the IL the native emitter and the stack code the wasm emitter produce for every integer "
                       "operator x type and every integer cast (2 x %d rows regenerated from the current compiler's output; %d/%d wasm rows of a proved shape) are proved to "
                       "yield the same canonical temporary for all operand values (backends_agree_on_selection; wasm stack code goes through a symbolic stack evaluation proved "
                       "sound, toSsa_sound); the models were compared with both executables on %d calls. The rest of the two emitters (control flow, memory, calls, runtimes) is NOT "
                       "modelled: there the agreement claim rests on differential execution: %d catalogue probes and %d random "
                       "programs accepted by both back ends, native executable vs .wasm under node with the shipped runtime.js, %d lines compared, each also "
                       "compared with the Lean reference interpreter." % (discharged, len(names), sel["wasm_rows"], sel["wasm_rows_of_proved_shape"], sel["wasm_rows"], sel["observations_compared"], both, nboth, lines),
        "obligations": len(names), "discharged": discharged, "theorems": [{"name": nm, "axioms": axioms.get(nm)} for nm in names],
        "evaluations": len(nat) + n, "distinct_nontrivial": nboth,
        "rule": "catalogue probes + seeded type-directed programs over the constructs both back ends support (%s); non-trivial = random programs accepted by both" % sorted(COMMON_FEATS),
        "samples": [p[0] for p in catalogue.PROBES[:5]], "catalogue": stats["catalogue"], "random": stats["random"], "selection": sel,
        "trusted_base": ["Lean 4 kernel", "lib/wasmsel.py (module decoder, function layout by sorted name checked against the export of main and every signature, removal of the one-block dispatcher wrapper)", "lib/qbesel.py", "Model/WasmSem.wasmOp and QbeSem.evalOp as the meaning of the opcodes (validated against both executables on every observation)", "node/V8 + runtime/wasm/runtime.js from the current tree", "gcc/as/ld", "Python generator/runner"],
    }
    write_evidence(PID, "other", cov, assumptions=["programs rejected by either back end (128/256-bit integers, closures, optionals, results on wasm) are outside the property's domain",
                                                   "floats are not generated (the property compares them as numbers)"], violations=len(rep.violations))
    return rep.finish()


if __name__ == "__main__":
    sys.exit(main())
