"""C15 — import graphs: every cycle is rejected, every DAG builds, under all schedules.
Theorems: Props/C15.lean over Model/DepGraph.lean (DFS correctness, acyclicity invariant, order-independent
verdicts, scheduler invariants, Kahn).  Tie: gohook depgraph (real AddDependency/ComputeTopologicalOrder) vs
fvdriver depgraph on exhaustive small edge sequences + random; whole compiler on all 512 digraphs over 3 modules."""
import re, os, sys, json, itertools
sys.path.insert(0, os.path.join(os.path.dirname(os.path.abspath(__file__)), "..", "lib"))
from common import *
from ferretrun import *

PID = "C15"


def name(i):
    return "m%03d" % i


def reaches(adj, a, b):
    """reflexive-transitive reachability a ->* b"""
    seen, st = {a}, [a]
    while st:
        x = st.pop()
        if x == b: return True
        for y in adj.get(x, []):
            if y not in seen:
                seen.add(y); st.append(y)
    return False


def oracle_seq(edges):
    """expected verdicts by the property: an attempt a>b is a cycle iff b already reaches a (incl. a == b)"""
    adj, out = {}, []
    for a, b in edges:
        if reaches(adj, b, a):
            out.append("0")
        else:
            out.append("1")
            if b not in adj.setdefault(a, []):
                adj[a].append(b)
    return "".join(out), adj


def cyclic(edge_set):
    adj = {}
    for a, b in edge_set:
        adj.setdefault(a, []).append(b)
    return any(reaches(adj, b, a) for a, b in edge_set)


def check_topo(order, mods, adj):
    if sorted(order) != sorted(mods): return "topological order %s is not a permutation of the modules %s" % (order, sorted(mods))
    pos = {m: i for i, m in enumerate(order)}
    for a, ds in adj.items():
        for b in ds:
            if pos[b] > pos[a]: return "dependency %s comes after its importer %s in %s" % (b, a, order)
    return None


# ---------------------------------------------------------------------------- whole compiler
def project_for(edges, n=3):
    """modules 0..n-1 (0 = main.fer entry); edge (a,b): a imports b. Tag(k) = 10^k + sum Tag(imports)."""
    names = ["main"] + ["mod%d" % i for i in range(1, n)]
    files = {}
    for a in range(n):
        imps = [b for (x, b) in edges if x == a]
        lines = ['import "std/io";'] if a == 0 else []
        seen_alias = set()
        for j, b in enumerate(imps):
            alias = "d%d" % b
            lines.append('import "app/%s" as %s;' % (names[b], alias))
        body = " + ".join(["%d" % (10 ** a)] + ["d%d::Tag()" % b for b in imps])
        lines.append("fn Tag() -> i32 { return %s; }" % body)
        if a == 0:
            lines.append("fn main() {\n    io::Println(Tag());\n}")
        files[names[a] + ".fer"] = "\n".join(lines) + "\n"
    return files


def tag_value(edges, a, memo=None):
    memo = {} if memo is None else memo
    if a in memo: return memo[a]
    v = 10 ** a + sum(tag_value(edges, b, memo) for (x, b) in edges if x == a)
    memo[a] = v
    return v


def main():
    tier = os.environ.get("VERIF_TIER", "quick")
    rep = Report(PID)
    rng = SplitMix64(seed() * 32452843 + 15)
    try:
        hook = build_gohook()
        fvdriver()
    except BuildError as e:
        log(str(e))
        rep.fail("tie:build", "gohook / driver no longer builds against the tree (tie broken)",
                 {"kind": "broken-obligation", "correspondence": "gohook depgraph", "detail": str(e)[-2000:]}, no_input=True)
        write_evidence(PID, "proof", {"obligations": 1, "discharged": 0, "checker_cmd": "lake build FerretVerif.Props.C15",
                                      "trusted_base": [], "explanation": "build failed"}, violations=1)
        return rep.finish()

    # ---- function level: edge-attempt sequences
    seqs = []
    e3 = [(a, b) for a in range(3) for b in range(3)]
    maxlen = 3 if tier == "quick" else 4
    for L in range(0, maxlen + 1):
        for s in itertools.product(e3, repeat=L):
            seqs.append((3, list(s)))
    # every digraph on 3 nodes, edges in 2 orders
    for mask in range(512):
        es = [e3[i] for i in range(9) if mask >> i & 1]
        seqs.append((3, es)); seqs.append((3, es[::-1]))
    for _ in range(1500 if tier == "quick" else 20000):
        n = 2 + rng.below(6)
        L = rng.below(3 * n)
        # bias towards chains/diamonds with a late closing edge
        es = []
        for _ in range(L):
            a, b = rng.below(n), rng.below(n)
            if rng.below(3): a, b = min(a, b), max(a, b)
            es.append((b, a) if rng.below(8) == 0 else (a, b))
        seqs.append((n, es))
    big = {}
    # large graphs (13..48 modules) with the shape of a real project: ids 0..B-1 are builtin modules (they import builtins only), id B is the entry
    # module (nothing imports it), the rest are local modules.  Orderings that are right for a handful of modules may rely on properties (stability
    # of a sort, recursion depth, map iteration) that only fail beyond a size or only when module kinds are mixed.
    for q in range(120 if tier == "quick" else 1500):
        n = 13 + rng.below(36)
        B = 1 + rng.below(max(1, n // 4))
        E = B
        es = []
        locs = list(range(B + 1, n))
        for i in range(1, len(locs)):               # shuffle the local modules: the chain / layers below follow this order, not the name order
            j = rng.below(i + 1); locs[i], locs[j] = locs[j], locs[i]
        kind = q % 3
        if kind == 0:                                   # the entry imports the head of a chain through all local modules; extra forward edges; builtins at the leaves
            es.append((E, locs[0]))
            es += [(locs[i], locs[i + 1]) for i in range(len(locs) - 1)]
            for _ in range(rng.below(8)):
                i = rng.below(len(locs) - 1); j = i + 1 + rng.below(len(locs) - 1 - i); es.append((locs[i], locs[j]))
            for _ in range(2 + rng.below(6)): es.append((rng.choice(locs + [E]), rng.below(B)))
        elif kind == 1:                                 # layered
            for i, a in enumerate(locs):
                for _ in range(1 + rng.below(3)):
                    if i + 1 < len(locs): es.append((a, locs[i + 1 + rng.below(len(locs) - i - 1)]))
                if rng.below(2): es.append((a, rng.below(B)))
            for _ in range(1 + rng.below(4)): es.append((E, rng.choice(locs)))
            es.append((E, rng.below(B)))
        else:                                           # random attempts among local modules, some closing cycles
            for _ in range(n + rng.below(2 * n)):
                i, j = rng.below(len(locs)), rng.below(len(locs))
                if rng.below(4): i, j = min(i, j), max(i, j)
                es.append((locs[i], locs[j]))
            for _ in range(3): es.append((E, rng.choice(locs)))
            for _ in range(3): es.append((rng.choice(locs), rng.below(B)))
        for i in range(B - 1):
            if rng.below(2): es.append((i, i + 1 + rng.below(B - 1 - i)))
        seqs.append((n, es))
        big[len(seqs) - 1] = B

    def nm(k, n, i):
        """names as the compiler sees them: builtin `b…`, entry `e…`, local `m…` (string order = id order, so the model can use the ids)"""
        if k not in big: return name(i)
        B = big[k]
        return ("b%03d" if i < B else "e%03d" if i == B else "m%03d") % i
    lines = ["%s %s" % (",".join(nm(k, n, i) for i in range(n)), " ".join("%s>%s" % (nm(k, n, a), nm(k, n, b)) for a, b in es)) for k, (n, es) in enumerate(seqs)]
    mlines = ["%s %s" % (",".join(name(i) for i in range(n)), " ".join("%s>%s" % (name(a), name(b)) for a, b in es)) for n, es in seqs]
    go = run([hook, "depgraph"], input="".join(l + "\n" for l in lines), check=True).stdout.split("\n")
    md = run_driver(["depgraph"], "".join(l + "\n" for l in mlines)).split("\n")
    go = [re.sub(r"\b[be](\d\d\d)\b", r"m\1", g) for g in go]          # back to the model's names
    diffs, nontriv = [], 0
    for k, ((n, es), l, g, m) in enumerate(zip(seqs, lines, go, md)):
        if g != m and len(diffs) < 20:
            diffs.append({"line": l, "go": g, "model": m})
        parts = [p.strip() for p in g.split("|")]
        if len(parts) != 3:
            rep.fail("fn:" + l, "AddDependency/ComputeTopologicalOrder failed on `%s`: %s" % (l, g), {"kind": "input", "line": l, "observed": g, "cmd": "gohook depgraph"})
            continue
        exp_v, adj = oracle_seq(es)
        got_v = "" if parts[0] == "-" else parts[0]
        if "0" in exp_v: nontriv += 1
        if got_v != exp_v:
            rep.fail("fn:" + l, "edge attempts `%s`: verdicts %s, expected %s (an attempt must be rejected exactly when it closes a cycle)" % (l, got_v, exp_v),
                     {"kind": "input", "line": l, "observed": got_v, "expected": exp_v, "cmd": "gohook depgraph"})
            continue
        if cyclic(set(es)) != ("0" in got_v):
            rep.fail("fn-set:" + l, "edge set cyclic=%s but rejections=%s" % (cyclic(set(es)), got_v), {"kind": "input", "line": l, "cmd": "gohook depgraph"})
        order = [x for x in parts[2].split(",") if x]
        adjn = {name(a): [name(b) for b in ds] for a, ds in adj.items()}
        bad = check_topo(order, [name(i) for i in range(n)], adjn)
        if bad:
            rep.fail("topo:" + l, "after `%s`: %s" % (l, bad), {"kind": "input", "line": l, "observed": parts[2], "cmd": "gohook depgraph"})

    # ---- atomicity of AddDependency (the model's steps are atomic; the code relies on ctx.mu held across check + insert)
    # (a) source fact: the lock is taken before the graph is touched and only released by the deferred Unlock
    lf = run([hook, "lockfacts"], input="%s AddDependency\n" % os.path.join(REPO, "internal/context_v2/context.go"), check=True).stdout.strip()
    # (b) concurrent edge attempts released by a barrier: every round's verdict vector must be explained by SOME sequential order
    conc_sets = [[(0, 1), (1, 0)], [(0, 1), (1, 2), (2, 0)], [(1, 2), (2, 1), (0, 1), (0, 2)], [(0, 1), (1, 2), (2, 3), (3, 0)], [(0, 0), (0, 1), (1, 0)]]
    rounds = 30000 if tier == "quick" else 400000
    clines = ["%d %s" % (rounds, " ".join("%s>%s" % (name(a), name(b)) for a, b in es)) for es in conc_sets]
    cgo = run([hook, "depgraph-conc"], input="".join(l + "\n" for l in clines), check=True, timeout=3000).stdout.strip().split("\n")
    conc = {"rounds_per_edge_set": rounds, "edge_sets": len(conc_sets), "lockfacts": lf, "distinct_vectors": 0, "unexplained": 0}
    conc_bad = False
    for es, l, g in zip(conc_sets, clines, cgo):
        left, _, right = g.partition("|")
        allowed = set()
        for perm in itertools.permutations(range(len(es))):
            v = oracle_seq([es[i] for i in perm])[0]
            byedge = dict(zip(perm, v))
            allowed.add("".join(byedge[i] for i in range(len(es))))
        for item in left.split():
            vec, _, cnt = item.partition(":")
            conc["distinct_vectors"] += 1
            if vec not in allowed:
                conc["unexplained"] += int(cnt); conc_bad = True
                rep.fail("conc:" + l.split(" ", 1)[1] + ":" + vec,
                         "concurrent AddDependency attempts `%s`: verdicts %s in %s of %d rounds — no sequential order of the attempts gives them (a cycle was admitted or an acyclic edge refused)"
                         % (l.split(" ", 1)[1], vec, cnt, rounds),
                         {"kind": "history", "edges": l.split(" ", 1)[1], "observed_verdicts": vec, "allowed": sorted(allowed), "rounds": rounds, "hits": int(cnt),
                          "cmd": "echo '%s' | gohook depgraph-conc" % l})
        if "cyclic=0 dropped=0" not in right:
            conc_bad = True
            rep.fail("conc-cyclic:" + l.split(" ", 1)[1], "concurrent AddDependency attempts `%s` left a cyclic graph / dropped modules from the order: %s" % (l.split(" ", 1)[1], right.strip()),
                     {"kind": "history", "edges": l.split(" ", 1)[1], "observed": right.strip(), "cmd": "echo '%s' | gohook depgraph-conc" % l})
    if lf != "Lock;Unlock;other=0" and not conc_bad:
        rep.fail("tie:lock-discipline", "AddDependency no longer has the shape `mu.Lock(); defer mu.Unlock()` around check + insert (extracted: %s): the model's atomic step is not tied to the code" % lf,
                 {"kind": "broken-obligation", "correspondence": "lockfacts(AddDependency) = Lock;Unlock;other=0", "observed": lf}, no_input=True)

    # ---- scheduler model sanity against the oracle: any schedule, same parsed set / verdict (model-only, feeds evidence)
    # ---- whole compiler: all digraphs on 3 modules
    masks = list(range(512))
    if tier == "quick":
        masks = [m for m in masks if rng.below(4) == 0 or m in (0, 1, 511, 0b000100010, 0b001010100)]
    jobs, meta = [], []
    for mask in masks:
        es = [e3[i] for i in range(9) if mask >> i & 1]
        jobs.append({"files": project_for(es), "mode": "run", "name": "app", "timeout": 60})
        meta.append(es)
    # a few larger shapes: chain, diamond, shared leaf, repeated import, long cycle
    big = [(5, [(0, 1), (1, 2), (2, 3), (3, 4)]), (4, [(0, 1), (0, 2), (1, 3), (2, 3)]), (5, [(0, 1), (0, 2), (0, 3), (1, 4), (2, 4), (3, 4)]),
           (5, [(0, 1), (1, 2), (2, 3), (3, 4), (4, 1)]), (4, [(0, 1), (1, 2), (2, 3), (3, 0)]), (3, [(0, 1), (0, 1), (1, 2)])]
    for n, es in big:
        files = project_for(sorted(set(es)), n)
        if len(es) != len(set(es)):   # repeated import line under a second alias
            files["main.fer"] = files["main.fer"].replace('import "app/mod1" as d1;', 'import "app/mod1" as d1;\nimport "app/mod1" as again1;')
        jobs.append({"files": files, "mode": "run", "name": "app", "timeout": 60})
        meta.append(sorted(set(es)))
    reps = 1 if tier == "quick" else 3
    results = []
    for r in range(reps):
        os.environ["GOMAXPROCS"] = ["16", "1", "2"][r % 3]
        results.append(run_many(jobs))
    os.environ.pop("GOMAXPROCS", None)
    wc = {"projects": len(jobs), "repetitions": reps, "cyclic": 0, "acyclic": 0}
    for j, es in enumerate(meta):
        reach = {0}
        ch = True
        while ch:
            ch = False
            for a, b in es:
                if a in reach and b not in reach:
                    reach.add(b); ch = True
        sub = [(a, b) for a, b in es if a in reach]
        cyc = cyclic(set(sub))
        wc["cyclic" if cyc else "acyclic"] += 1
        for r in range(reps):
            res = results[r][j]
            key = "proj:%s" % ",".join("%d>%d" % e for e in es)
            if res.timeout:
                rep.fail(key + ":hang", "compilation of import graph %s did not terminate" % es, {"kind": "input", "files": jobs[j]["files"], "observed": "timeout"})
            elif cyc:
                msgs = strip_ansi(res.compile_out)
                if res.accepted or "circular import" not in msgs or res.artifact:
                    rep.fail(key, "import graph %s (cyclic among modules reachable from main) : exit=%s, circular-import diagnostic=%s, artifact=%s"
                             % (es, res.compile_rc, "circular import" in msgs, res.artifact),
                             {"kind": "input", "files": jobs[j]["files"], "expected": "failure with 'circular import detected', no executable",
                              "observed": msgs[-800:], "cmd": "ferret -o out.bin main.fer"})
            else:
                exp = [str(tag_value(sub, 0))]
                if not res.accepted or res.lines != exp:
                    rep.fail(key, "acyclic import graph %s: exit=%s output=%s expected=%s" % (es, res.compile_rc, res.lines, exp),
                             {"kind": "input", "files": jobs[j]["files"], "expected": exp, "observed": (strip_ansi(res.compile_out)[-600:], res.lines),
                              "cmd": "ferret -o out.bin main.fer && ./out.bin"})

    # ---- proof obligations
    ok, out = lake_build(["FerretVerif.Props.C15"])
    names = theorem_names("C15")
    axioms, discharged = {}, 0
    if ok:
        axioms, _ = audit_theorems("C15", names)
        for n in names:
            ax = axioms.get(n)
            if ax is not None and set(ax) <= ALLOWED_AXIOMS:
                discharged += 1
            else:
                rep.fail("axioms:" + n, "theorem %s missing or depends on unexpected axioms %s" % (n, ax),
                         {"kind": "broken-obligation", "theorem": n, "axioms": ax}, no_input=True)
    else:
        log(out[-3000:])
        rep.fail("proof:C15", "Props/C15.lean no longer builds", {"kind": "broken-obligation", "detail": out[-3000:]}, no_input=True)
    forb = grep_forbidden()
    if forb:
        rep.fail("audit:forbidden", "forbidden construct in Lean sources: %s" % forb[:3], {"kind": "broken-obligation", "hits": forb[:20]}, no_input=True)
    if diffs and not rep.violations and not rep.known_hit:
        rep.fail("tie:depgraph", "Model/DepGraph.lean and context.go disagree on %d sequences although every verdict and order is right" % len(diffs),
                 {"kind": "broken-obligation", "correspondence": "fvdriver depgraph vs gohook depgraph", "diffs": diffs}, no_input=True)

    cov = {
        "obligations": len(names), "discharged": discharged,
        "checker_cmd": "cd /verif/lean && lake build FerretVerif.Props.C15 && #print axioms per theorem",
        "trusted_base": ["Lean 4 kernel", "axioms: " + ", ".join(sorted({a for v in axioms.values() if v for a in v})),
                         "gohook depgraph (real CompilerContext.AddDependency / ComputeTopologicalOrder)", "python reachability oracle",
                         "Go's sync.Map / WaitGroup / mutex semantics (the scheduler model's atomic steps)"],
        "theorems": [{"name": n, "axioms": axioms.get(n)} for n in names],
        "evaluations": len(seqs) + len(jobs) * reps, "distinct_nontrivial": nontriv,
        "rule": "function level: ALL sequences of <=%d edge attempts over the 9 edges on 3 modules, all 512 digraphs in two orders, random sequences on 2..7 modules; "
                "non-trivial = sequences in which at least one attempt must be rejected; whole compiler: digraphs on {main, mod1, mod2} incl. self-imports "
                "(quick: seeded quarter; thorough: all 512, 3 repetitions under GOMAXPROCS 16/1/2) + chain/diamond/shared-leaf/long-cycle/repeated-import projects" % maxlen,
        "samples": lines[100:len(lines):max(1, len(lines) // 8)],
        "concurrent_add_dependency": conc, "exhaustive": tier != "quick", "model_vs_code_diffs": diffs[:10], "whole_compiler": wc,
    }
    write_evidence(PID, "proof", cov,
                   assumptions=["schedules of the real compiler are not forced in this tier (GOMAXPROCS variation + repetition); the scheduler theorems cover all interleavings of the model"],
                   violations=len(rep.violations))
    return rep.finish()


if __name__ == "__main__":
    sys.exit(main())
