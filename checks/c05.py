"""C05 — a non-void function always returns a value from a return statement.
Theorems: Props/C05.lean over Model/Cfg.lean (the analysis is exact w.r.t. the path semantics).
Tie: generated body skeletons -> real compiler `-t` verdict vs the model; accepted bodies are executed on every
path and every returned value must be one of the body's return tags."""
import os, sys, json, itertools, hashlib
sys.path.insert(0, os.path.join(os.path.dirname(os.path.abspath(__file__)), "..", "lib"))
from common import *
from ferretrun import *

PID = "C05"
GUARD = 7777


def gen_body(rng, depth, in_loop, budget):
    """skeleton as nested python lists: ['P'], ['R'], ['B'], ['C'], ['if', a, b], ['ifn', a], ['while','T'|'F', body], ['for', body],
    ['match','D'|'N', cases], ['block', body]"""
    out = []
    n = 1 + rng.below(3)
    for _ in range(n):
        if budget[0] <= 0:
            break
        budget[0] -= 1
        r = rng.below(100)
        if depth <= 0:
            r = r % 40
        if r < 14: out.append(["P"])
        elif r < 30: out.append(["R"])
        elif r < 35: out.append(["B"] if in_loop else ["P"])
        elif r < 40: out.append(["C"] if in_loop else ["R"])
        elif r < 55: out.append(["if", gen_body(rng, depth - 1, in_loop, budget), gen_body(rng, depth - 1, in_loop, budget)])
        elif r < 65: out.append(["ifn", gen_body(rng, depth - 1, in_loop, budget)])
        elif r < 75: out.append(["while", "F", gen_body(rng, depth - 1, True, budget)])
        elif r < 83: out.append(["while", "T", [["ifn", [["R"]]]] + gen_body(rng, depth - 1, True, budget)])   # leading guard return
        elif r < 88: out.append(["for", gen_body(rng, depth - 1, True, budget)])
        elif r < 97:
            k = 1 + rng.below(3)
            out.append(["match", rng.choice(["D", "N"]), [gen_body(rng, depth - 1, in_loop, budget) for _ in range(k)]])
        else: out.append(["block", gen_body(rng, depth - 1, in_loop, budget)])
        if not can_continue(out[-1]):
            break
    return out


def can_continue(st):
    """does control possibly continue after this statement (python mirror of the spec, for generation only:
    the compiler rejects statically unreachable statements, so lists stop after a statement that never falls through)"""
    h = st[0]
    if h == "P": return True
    if h in ("R", "B", "C"): return False
    if h == "if": return falls_list(st[1]) or falls_list(st[2])
    if h == "ifn": return True
    if h == "while": return st[1] == "F" or has_break(st[2])
    if h == "for": return True
    if h == "match": return st[1] == "N" or any(falls_list(c) for c in st[2])
    if h == "block": return falls_list(st[1])
    return True


def falls_list(body):
    return all(can_continue(st) for st in body)


def has_break(body):
    for st in body:
        h = st[0]
        if h == "B": return True
        if h == "if" and (has_break(st[1]) or has_break(st[2])): return True
        if h in ("ifn", "block") and has_break(st[1]): return True
        if h == "match" and any(has_break(c) for c in st[2]): return True
        if not can_continue(st): return False
    return False


def sx(body):
    def s(st):
        h = st[0]
        if h in "PRBC" and len(st) == 1: return "(%s)" % h
        if h == "if": return "(if (%s) (%s))" % (" ".join(map(s, st[1])), " ".join(map(s, st[2])))
        if h == "ifn": return "(ifn (%s))" % " ".join(map(s, st[1]))
        if h == "while": return "(while %s %s)" % (st[1], " ".join(map(s, st[2])))
        if h == "for": return "(for %s)" % " ".join(map(s, st[1]))
        if h == "match": return "(match %s X %s)" % (st[1], " ".join("(case %s)" % " ".join(map(s, c)) for c in st[2]))
        if h == "block": return "(block %s)" % " ".join(map(s, st[1]))
        raise ValueError(st)
    return "(body %s)" % " ".join(map(s, body))


class Render:
    def __init__(self, style=0):
        self.style = style
        self.k = 0          # condition counter
        self.tags = []
        self.uid = 0

    def cond(self):
        self.k += 1
        return "bit(path, %d)" % (self.k - 1)

    def stmts(self, body, ind, guard_first=False):
        out = []
        pad = "    " * ind
        for st in body:
            h = st[0]
            if h == "P": out.append(pad + "t = t + 1;")
            elif h == "R":
                tag = 1001 + len(self.tags); self.tags.append(tag)
                out.append(pad + "return %d;" % tag)
            elif h == "B": out.append(pad + "break;")
            elif h == "C": out.append(pad + "continue;")
            elif h == "if":
                out.append(pad + "if %s {" % self.cond()); out += self.stmts(st[1], ind + 1)
                out.append(pad + "} else {"); out += self.stmts(st[2], ind + 1); out.append(pad + "}")
            elif h == "ifn":
                out.append(pad + "if %s {" % self.cond()); out += self.stmts(st[1], ind + 1); out.append(pad + "}")
            elif h == "while" and st[1] == "F":
                # a condition the analysis cannot decide; five ways of writing it (all of them do become false at run time)
                self.uid += 1; w = "w%d" % self.uid
                style = (self.style + self.uid) % 5
                if style == 0:
                    out.append(pad + "let %s: i32 = 0;" % w)
                    out.append(pad + "while %s < 2 {" % w); out.append(pad + "    %s = %s + 1;" % (w, w))
                elif style == 1:      # flag cleared by assignment
                    out.append(pad + "let %s: bool = true;" % w)
                    out.append(pad + "while %s {" % w); out.append(pad + "    %s = false;" % w)
                elif style == 2:      # flag cleared through a mutable reference
                    out.append(pad + "let %s := true;" % w)
                    out.append(pad + "while %s {" % w); out.append(pad + "    stop(&'%s);" % w)
                elif style == 3:      # bound held in a never-reassigned let
                    out.append(pad + "let %s: i32 = 0;" % w); out.append(pad + "let lim%s: i32 = 1;" % w)
                    out.append(pad + "while %s < lim%s {" % (w, w)); out.append(pad + "    %s += 1;" % w)
                else:                 # conjunction with a constant-true operand
                    out.append(pad + "let %s: i32 = 0;" % w)
                    out.append(pad + "while true && %s < 2 {" % w); out.append(pad + "    %s++;" % w)
                out += self.stmts(st[2], ind + 1); out.append(pad + "}")
            elif h == "while":
                # `while true`: body starts with the guard `if g > 3 { return GUARD }` (skeleton: ifn [R])
                self.uid += 1; g = "g%d" % self.uid
                out.append(pad + "let %s: i32 = 0;" % g)
                out.append(pad + "while true {"); out.append(pad + "    %s = %s + 1;" % (g, g))
                out.append(pad + "    if %s > 3 {" % g); out.append(pad + "        return %d;" % GUARD); out.append(pad + "    }")
                out += self.stmts(st[2][1:], ind + 1); out.append(pad + "}")
            elif h == "for":
                self.uid += 1; j = "j%d" % self.uid
                out.append(pad + "for %s in flo..fhi {" % j); out += self.stmts(st[1], ind + 1); out.append(pad + "}")
            elif h == "match":
                self.k += 1
                out.append(pad + "match sel(path, %d) {" % (self.k - 1))
                cases = st[2]
                n = len(cases) - (1 if st[1] == "D" else 0)
                for i, c in enumerate(cases):
                    pat = "_" if (st[1] == "D" and i == len(cases) - 1) else str(i)
                    out.append(pad + "    %s => {" % pat); out += self.stmts(c, ind + 2); out.append(pad + "    }")
                out.append(pad + "}")
            elif h == "block":
                out.append(pad + "{"); out += self.stmts(st[1], ind + 1); out.append(pad + "}")
        return out


PRELUDE = '''import "std/io";
fn bit(p: i32, k: i32) -> bool {
    let q: i32 = p;
    let i: i32 = 0;
    while i < k {
        q = q / 2;
        i = i + 1;
    }
    return (q % 2) == 1;
}
fn sel(p: i32, k: i32) -> i32 {
    let q: i32 = p;
    let i: i32 = 0;
    while i < k {
        q = q / 2;
        i = i + 1;
    }
    return q % 3;
}
type H struct { .V: i32 };
fn stop(flag: &'bool) { flag = false; }
fn apply(f: fn(a: i32) -> i32, x: i32) -> i32 { return f(x); }
'''


def render(body, host, style=0):
    r = Render(style)
    inner = r.stmts(body, 1)
    decls = ["    let t: i32 = 0;", "    let flo: i32 = 0;", "    let fhi: i32 = 2;"]
    npaths = min(1 << min(r.k + 1, 6), 64)
    ind = lambda ls, k=1: ["    " * k + l for l in ls]
    lit = lambda name: ["let %s := fn(path: i32) -> i32 {" % name] + decls[0:0] + [l for l in decls + inner] + ["};"]
    loop = lambda call: ["let p: i32 = 0;", "while p < %d {" % npaths, "    io::Println(%s);" % call, "    p = p + 1;", "}"]
    fn, body_main = "", []
    if host == "func":
        fn = "fn f(path: i32) -> i32 {\n" + "\n".join(decls + inner) + "\n}\n"
        body_main = loop("f(p)")
    elif host == "method":
        fn = "fn (h: H) m(path: i32) -> i32 {\n" + "\n".join(decls + inner) + "\n}\n"
        body_main = ["let hh: H = { .V = 1 };"] + loop("hh.m(p)")
    elif host == "funcLit":
        body_main = lit("g") + loop("g(p)")
    elif host == "lit_in_void_lit":       # non-void literal nested in a void literal
        body_main = ["let outer := fn() {"] + ind(lit("g") + loop("g(p)")) + ["};", "outer();"]
    elif host == "lit_in_lit":            # nested in a non-void literal
        body_main = ["let outer := fn(q: i32) -> i32 {"] + ind(lit("g") + ["return g(q);"]) + ["};"] + loop("outer(p)")
    elif host == "lit_in_method":
        fn = "fn (h: H) run(q: i32) -> i32 {\n" + "\n".join(ind(lit("g") + ["return g(q);"])) + "\n}\n"
        body_main = ["let hh: H = { .V = 1 };"] + loop("hh.run(p)")
    elif host == "lit_in_func":
        fn = "fn run(q: i32) -> i32 {\n" + "\n".join(ind(lit("g") + ["return g(q);"])) + "\n}\n"
        body_main = loop("run(p)")
    elif host == "lit_in_branch":         # declared inside an if inside a loop of main
        body_main = ["let z: i32 = 0;", "while z < 1 {", "    z = z + 1;", "    if z == 1 {"] + ind(lit("g") + loop("g(p)"), 2) + ["    }", "}"]
    elif host == "lit_as_arg":
        body_main = ["let p: i32 = 0;", "while p < %d {" % npaths, "    io::Println(apply(fn(path: i32) -> i32 {"] + ind(decls + inner, 1) + ["    }, p));", "    p = p + 1;", "}"]
    else:
        raise ValueError(host)
    main = "fn main() {\n" + "\n".join(ind(body_main)) + "\n}\n"
    return PRELUDE + fn + main, r.tags, npaths



# ---------------------------------------------------------------------------------------------------------------
# enum coverage: a non-void body ending in a `match` on an enum scrutinee without default is accepted exactly when
# every variant has an arm (cfg.go matchCoversEnum, Model/Cfg.lean matchCoversEnum, Props/C05 covers_enum_exact)

ENUM_SIZES = [1, 2, 3, 5, 31, 32, 33, 63, 64, 65, 66, 70, 127, 128, 129, 200]


def enum_cases(rng, tier):
    """(n, missing set, has default, host, shuffled arms)"""
    out = []
    hosts = ["func", "method", "funcLit"]
    k = 0
    for n in ENUM_SIZES:
        miss_opts = [[]] + [[m] for m in sorted({0, n - 1, n // 2, 31, 32, 63, 64, 65, n - 2}) if 0 <= m < n and n > 1]
        if n > 3:
            miss_opts.append(sorted({n - 1, n - 2}))
            miss_opts.append([rng.below(n)])
        if tier != "quick":
            miss_opts += [[rng.below(n)] for _ in range(6)]
        for mi, miss in enumerate(miss_opts):
            for default in ([False, True] if (mi < 2 or tier != "quick") else [False]):
                out.append((n, miss, default, hosts[k % 3], k % 4 == 3))
                k += 1
    return out


def render_enum(n, miss, default, host, shuffled, rng):
    vs = ["V%d" % i for i in range(n)]
    armed = [i for i in range(n) if i not in miss]
    order = list(armed)
    if shuffled:
        for i in range(len(order) - 1, 0, -1):
            j = rng.below(i + 1); order[i], order[j] = order[j], order[i]
    arms = ["        E::V%d => { return %d; }" % (i, 100 + i) for i in order]
    if default:
        arms.append("        _ => { return 999; }")
    body = "    match e {\n" + "\n".join(arms) + "\n    }\n"
    pick = "fn pick(i: i32) -> E {\n    match i {\n" + "\n".join("        %d => { return E::V%d; }" % (i, i) for i in range(n - 1)) + \
           "\n        _ => { return E::V%d; }\n    }\n}\n" % (n - 1)
    decl = "type E enum { " + ", ".join(vs) + " };\n"
    if host == "func":
        fn, call, pre = "fn cost(e: E) -> i32 {\n" + body + "}\n", "cost(pick(p))", []
    elif host == "method":
        fn, call, pre = "type H struct { .V: i32 };\nfn (h: H) cost(e: E) -> i32 {\n" + body + "}\n", "hh.cost(pick(p))", ["    let hh: H = { .V = 1 };"]
    else:
        fn, call = "", "g(pick(p))"
        pre = ["    let g := fn(e: E) -> i32 {"] + ["    " + l for l in body.rstrip("\n").split("\n")] + ["    };"]
    main = "fn main() {\n" + "\n".join(pre + ["    let p: i32 = 0;", "    while p < %d {" % n, "        io::Println(%s);" % call, "        p = p + 1;", "    }"]) + "\n}\n"
    expected = [str(100 + i) if i not in miss else "999" for i in range(n)]
    return 'import "std/io";\n' + decl + pick + fn + main, expected


def check_enum_coverage(rep, tier, rng, st):
    cases = enum_cases(rng, tier)
    q = "".join("%d %s\n" % (n, ",".join(str(i) for i in range(n) if i not in miss) or "-") for n, miss, d, h, sh in cases)
    model = run_driver(["cfg-covers"], q).split("\n")[:-1]
    jobs, exps = [], []
    for n, miss, d, h, sh in cases:
        text, expected = render_enum(n, miss, d, h, sh, rng)
        jobs.append({"files": {"main.fer": text}, "mode": "run", "timeout": 60}); exps.append(expected)
    res = run_many(jobs)
    st["enum_programs"] = len(jobs); st["enum_accepted"] = 0; st["enum_rejected"] = 0; st["enum_sizes"] = ENUM_SIZES
    for (n, miss, d, h, sh), m, r, job, expected in zip(cases, model, res, jobs, exps):
        key = "enum:%d:%s:%s:%s" % (n, ",".join(map(str, miss)) or "-", "D" if d else "N", h)
        errs = [x for x in r.diags if x[0] == "error"]
        missing_ret = any("not all code paths" in x[2] for x in errs)
        other = [x[2] for x in errs if "not all code paths" not in x[2]]
        covers = (m == "true")
        if covers != (not miss):
            rep.fail("tie:covers", "Model matchCoversEnum disagrees with the specification on %s" % key, {"kind": "broken-obligation", "correspondence": "fvdriver cfg-covers"}, no_input=True)
        must_reject = bool(miss) and not d
        if other or r.compile_rc not in (0, 1):
            rep.fail("crash:" + key, "enum match (%d variants, arms missing for %s, %s default, %s): compiler failed otherwise: %s" % (n, miss, "with" if d else "no", h, (other or [strip_ansi(r.compile_out)[-200:]])[0][:200]),
                     {"kind": "input", "files": job["files"], "observed": strip_ansi(r.compile_out)[-800:]})
            continue
        if missing_ret:
            st["enum_rejected"] += 1
            if not must_reject:
                rep.fail("misreject:" + key, "a %s ending in a match over all %d variants%s is rejected for a missing return" % (h, n, " (with default)" if d else ""),
                         {"kind": "input", "files": job["files"], "expected": "accepted", "observed": "rejected: not all code paths return"})
            continue
        st["enum_accepted"] += 1
        if must_reject:
            bad = [(i, v) for i, v in enumerate(r.lines) if i in miss]
            rep.fail("falloff:" + key, "non-void %s ending in a match on an enum with %d variants, no default and no arm for variant(s) %s is ACCEPTED; calls with the missing variants return %s" %
                     (h, n, miss, [v for _, v in bad][:4]),
                     {"kind": "input", "files": job["files"], "expected": "compile error: not all code paths return", "observed": "accepted; output for the missing variants: %s" % bad[:6],
                      "cmd": "ferret -o out main.fer && ./out"})
            continue
        if r.run_rc != 0 or r.lines != expected:
            j = next((i for i in range(min(len(r.lines), len(expected))) if r.lines[i] != expected[i]), min(len(r.lines), len(expected)))
            rep.fail("garbage:" + key, "accepted enum match (%d variants, %s): call with variant %d returns %r, expected %s (exit %s)" % (n, h, j, r.lines[j] if j < len(r.lines) else None, expected[j] if j < len(expected) else None, r.run_rc),
                     {"kind": "input", "files": job["files"], "observed": r.lines[:20], "expected": expected[:20]})
        else:
            st["executed_paths"] += n


HOSTS = ["func", "method", "funcLit", "lit_in_void_lit", "lit_in_lit", "lit_in_method", "lit_in_func", "lit_in_branch", "lit_as_arg"]
MODEL_KIND = {"func": "func", "method": "method"}       # every other host is a function literal for the model


CORPUS = [
    [["match", "N", [[["R"]], [["R"]]]]],
    [["match", "D", [[["R"]], [["R"]]]]],
    [["if", [["R"]], [["R"]]]],
    [["ifn", [["R"]]]],
    [["if", [["R"]], [["P"]]], ["R"]],
    [["while", "F", [["R"]]]],
    [["while", "F", [["R"]]], ["R"]],
    [["for", [["R"]]]],
    [["while", "T", [["ifn", [["R"]]], ["ifn", [["B"]]]]]],
    [["while", "T", [["ifn", [["R"]]], ["ifn", [["B"]]]]], ["R"]],
    [["while", "T", [["ifn", [["R"]]], ["P"]]]],
    [["while", "T", [["ifn", [["R"]]], ["match", "N", [[["B"]], [["R"]]]]]], ["R"]],
    [["if", [["match", "N", [[["R"]]]]], [["R"]]]],
    [["block", [["if", [["R"]], [["R"]]]]]],
    [["if", [["R"]], [["if", [["R"]], [["R"]]]]]],
    [["if", [["R"]], [["ifn", [["R"]]]]]],
    [["for", [["ifn", [["C"]]], ["R"]]]],
    [["P"]], [["R"]], [],
]


def main():
    tier = os.environ.get("VERIF_TIER", "quick")
    rep = Report(PID)
    rng = SplitMix64(seed() * 86028121 + 5)
    try:
        build_ferret(); fvdriver()
    except BuildError as e:
        log(str(e))
        rep.fail("tie:build", "compiler / driver no longer builds (tie broken)", {"kind": "broken-obligation", "detail": str(e)[-2000:]}, no_input=True)
        write_evidence(PID, "proof", {"obligations": 1, "discharged": 0, "checker_cmd": "lake build", "trusted_base": []}, violations=1)
        return rep.finish()
    bodies = list(CORPUS)
    n = 250 if tier == "quick" else 4000
    seen = {sx(b) for b in bodies}
    while len(bodies) < n + len(CORPUS):
        b = gen_body(rng, 2 + rng.below(2), False, [4 + rng.below(7)])
        s = sx(b)
        if s not in seen:
            seen.add(s); bodies.append(b)
    mlines = run_driver(["cfg"], "".join(sx(b) + "\n" for b in bodies)).split("\n")
    hosts = HOSTS
    jobs, meta = [], []
    for i, b in enumerate(bodies):
        mf = mlines[i].split()
        if len(mf) != 6 or mf[2] != "true":
            continue
        analysed_by_kind = {"func": mf[3] == "true", "method": mf[4] == "true", "funcLit": mf[5] == "true"}
        impl_ok, falls = mf[0] == "true", mf[1] == "true"
        host = hosts[i % len(hosts)] if i >= len(CORPUS) else "func"
        for h in ([host] if i >= len(CORPUS) else hosts):
            text, tags, npaths = render(b, h, style=i)
            jobs.append({"files": {"main.fer": text}, "mode": "run", "timeout": 30})
            meta.append((i, h, impl_ok, falls, tags, npaths, analysed_by_kind[MODEL_KIND.get(h, "funcLit")]))
    res = run_many(jobs)
    st = {"bodies": len(bodies), "programs": len(jobs), "accepted": 0, "rejected_missing_return": 0, "other_errors": 0, "executed_paths": 0,
          "model_vs_compiler_diffs": 0, "spec_falls": 0}
    diffs = []
    for (i, h, impl_ok, falls, tags, npaths, analysed), r, job in zip(meta, res, jobs):
        errs = [d for d in r.diags if d[0] == "error"]
        missing = any("not all code paths" in d[2] for d in errs)
        other = [d[2] for d in errs if "not all code paths" not in d[2]]
        key = "%s:%s" % (h, sx(bodies[i]))
        if falls: st["spec_falls"] += 1
        if other or r.compile_rc not in (0, 1):
            st["other_errors"] += 1
            if r.compile_rc not in (0, 1) or any("qbe" in o or "unsupported" in o.lower() for o in other):
                rep.fail("crash:" + key, "body skeleton %s as %s: compiler failed otherwise: %s" % (sx(bodies[i]), h, (other or [strip_ansi(r.compile_out)[-200:]])[0][:200]),
                         {"kind": "input", "files": job["files"], "observed": strip_ansi(r.compile_out)[-800:]})
            continue
        expect_reject = falls
        # correspondence with the impl-model (which predicts what the compiler does, including unanalysed hosts)
        model_reject = (not impl_ok) and analysed
        if missing != model_reject:
            st["model_vs_compiler_diffs"] += 1
            if len(diffs) < 20: diffs.append({"host": h, "body": sx(bodies[i]), "compiler_rejects": missing, "model_rejects": model_reject})
        if missing:
            st["rejected_missing_return"] += 1
            if not expect_reject:
                rep.fail("misreject:" + key, "body %s (%s) is rejected for a missing return although no path reaches its end" % (sx(bodies[i]), h),
                         {"kind": "input", "files": job["files"], "skeleton": sx(bodies[i]), "expected": "accepted", "observed": "rejected: not all code paths return"})
            continue
        st["accepted"] += 1
        if expect_reject:
            bad = [v for v in r.lines if not v.lstrip("-").isdigit() or int(v) not in set(tags) | {GUARD}]
            rep.fail("falloff:" + key, "non-void %s with body %s is ACCEPTED although a path reaches its end without returning%s" %
                     (h, sx(bodies[i]), (" — calls return values that are no return statement's: %s" % bad[:4]) if bad else ""),
                     {"kind": "input", "files": job["files"], "skeleton": sx(bodies[i]), "host": h, "expected": "compile error: not all code paths return",
                      "observed": "accepted; returned values %s" % r.lines[:16], "cmd": "ferret -o out main.fer && ./out"})
            continue
        # accepted and no path falls off: every call must return one of the tags
        if r.run_rc != 0 or len(r.lines) != npaths:
            rep.fail("run:" + key, "accepted body %s (%s): run failed (exit %s, %d/%d lines)" % (sx(bodies[i]), h, r.run_rc, len(r.lines), npaths),
                     {"kind": "input", "files": job["files"], "observed": r.lines[:10]})
            continue
        st["executed_paths"] += npaths
        bad = [v for v in r.lines if not v.lstrip("-").isdigit() or int(v) not in set(tags) | {GUARD}]
        if bad:
            rep.fail("garbage:" + key, "accepted body %s (%s) returns %s, not a value of any of its return statements %s" % (sx(bodies[i]), h, bad[:4], tags),
                     {"kind": "input", "files": job["files"], "observed": r.lines[:40], "expected_values": tags})

    check_enum_coverage(rep, tier, rng, st)

    ok, out = lake_build(["FerretVerif.Props.C05"])
    names = theorem_names("C05")
    axioms, discharged = {}, 0
    if ok:
        axioms, _ = audit_theorems("C05", names)
        for nm in names:
            ax = axioms.get(nm)
            if ax is not None and set(ax) <= ALLOWED_AXIOMS: discharged += 1
            else: rep.fail("axioms:" + nm, "theorem %s missing or depends on unexpected axioms %s" % (nm, ax), {"kind": "broken-obligation", "theorem": nm}, no_input=True)
    else:
        log(out[-3000:])
        rep.fail("proof:C05", "Props/C05.lean no longer builds", {"kind": "broken-obligation", "detail": out[-3000:]}, no_input=True)
    forb = grep_forbidden()
    if forb:
        rep.fail("audit:forbidden", "forbidden construct in Lean sources: %s" % forb[:3], {"kind": "broken-obligation", "hits": forb[:20]}, no_input=True)
    if diffs and not rep.violations and not rep.known_hit:
        rep.fail("tie:cfg", "Model/Cfg.lean and the compiler's return analysis disagree on %d bodies although the property holds on each" % len(diffs),
                 {"kind": "broken-obligation", "correspondence": "fvdriver cfg vs ferret -t", "diffs": diffs}, no_input=True)
    if st["other_errors"] > len(jobs) // 5:
        rep.fail("gen:errors", "%d of %d generated programs are rejected for unrelated reasons: the generator no longer fits the compiler" % (st["other_errors"], len(jobs)),
                 {"kind": "broken-obligation", "correspondence": "c05 program rendering"}, no_input=True)
    cov = {
        "obligations": len(names), "discharged": discharged,
        "checker_cmd": "cd /verif/lean && lake build FerretVerif.Props.C05 && #print axioms per theorem",
        "trusted_base": ["Lean 4 kernel", "axioms: " + ", ".join(sorted({a for v in axioms.values() if v for a in v})),
                         "skeleton -> Ferret rendering (conditions read bits of a path argument; every return yields a distinct tag)",
                         "ferret diagnostics text 'not all code paths'"],
        "theorems": [{"name": nm, "axioms": axioms.get(nm)} for nm in names],
        "evaluations": len(jobs), "distinct_nontrivial": len([b for b in bodies if len(sx(b)) > 30]),
        "rule": "fixed corpus x 9 hosts (function, method, function literal; literal nested in a void literal, in a non-void literal, in a method, in a function, in a branch inside a loop, passed as an argument) + seeded random skeletons rendered with 5 spellings of undecidable loop conditions (counter, flag cleared by assignment, flag cleared through &', bound in a let, `true && c`) (nesting depth <= 3, <= 10 nodes) over if/else-if/else, match with and "
                "without default, while (opaque / literal true with break), for, break/continue, early returns; non-trivial = distinct skeletons with more than ~4 nodes; "
                "ENUM COVERAGE: bodies ending in a match on an enum of 1..200 variants (sizes around 32, 64 and 128 included) with every arm, or arms missing at the first / middle / last / 32nd / 64th / 65th position, "
                "with and without default, arms in declaration or shuffled order, as function, method and function literal; accepted ones are called with every variant",
        "samples": [sx(b) for b in bodies[len(CORPUS):len(CORPUS) + 5]],
        "model_vs_code_diffs": diffs[:10], "stats": st,
    }
    write_evidence(PID, "proof", cov, assumptions=["`while true` bodies carry a counter guard with a return so every execution terminates (the guard is part of the skeleton)"],
                   violations=len(rep.violations))
    return rep.finish()


if __name__ == "__main__":
    sys.exit(main())
