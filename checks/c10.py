"""C10 — integer literals are range-checked exactly and keep their value.
Theorems: Props/C10.lean (parser value = mathematical value; fits <-> range; runtime digit step exact).
Tie: gohook numparse/fitshex/bigparse vs fvdriver literal; whole compiler (accept/reject + printed value).
Violation oracle: the literal's mathematical value computed here in Python (independent of the model)."""
import os, sys, re, json
sys.path.insert(0, os.path.join(os.path.dirname(os.path.abspath(__file__)), "..", "lib"))
from common import *
from ferretrun import *

PID = "C10"
INT_TYPES = [("i8", 8, True), ("i16", 16, True), ("i32", 32, True), ("i64", 64, True), ("i128", 128, True), ("i256", 256, True),
             ("u8", 8, False), ("u16", 16, False), ("u32", 32, False), ("u64", 64, False), ("u128", 128, False), ("u256", 256, False)]
LIT_RE = re.compile(r"-?(?:0[xX][0-9a-fA-F](?:[0-9a-fA-F]|_[0-9a-fA-F])*|0[oO][0-7](?:[0-7]|_[0-7])*|0[bB][01](?:[01]|_[01])*|[0-9](?:[0-9]|_[0-9])*)")


def spec_val(txt):
    """mathematical value of a well-formed integer literal, else None (the property's domain)"""
    if not LIT_RE.fullmatch(txt):
        return None
    neg = txt.startswith("-")
    body = txt[1:] if neg else txt
    body = body.replace("_", "")
    if body[:2] in ("0x", "0X"): v = int(body[2:], 16)
    elif body[:2] in ("0o", "0O"): v = int(body[2:], 8)
    elif body[:2] in ("0b", "0B"): v = int(body[2:], 2)
    else: v = int(body, 10)
    return -v if neg else v


def rng_of(bits, sg):
    return (-(1 << (bits - 1)), (1 << (bits - 1)) - 1) if sg else (0, (1 << bits) - 1)


def sep(digits, rng):
    """insert '_' between some digits"""
    out = []
    for i, c in enumerate(digits):
        out.append(c)
        if i + 1 < len(digits) and rng.below(4) == 0:
            out.append("_")
    return "".join(out)


def forms(v, rng, all_forms=False):
    """literal spellings of the integer v"""
    neg = "-" if v < 0 else ""
    m = abs(v)
    fs = [neg + str(m), neg + "0x" + format(m, "x"), neg + "0X" + format(m, "X"), neg + "0o" + format(m, "o"),
          neg + "0b" + format(m, "b"), neg + sep(str(m), rng), neg + "0x" + sep(format(m, "x"), rng),
          neg + "0" + str(m), neg + "00" + sep(str(m), rng), neg + "0b" + sep(format(m, "b"), rng), neg + "0O" + sep(format(m, "o"), rng)]
    return fs if all_forms else [rng.choice(fs)]


def gen_literals(rng, tier):
    lits = []
    for name, bits, sg in INT_TYPES:
        lo, hi = rng_of(bits, sg)
        for edge in (lo, hi):
            for off in (-2, -1, 0, 1, 2):
                for f in forms(edge + off, rng, all_forms=True):
                    lits.append((f, name))
        for _ in range(20 if tier == "quick" else 200):
            k = rng.below(300)
            v = rng.next() | (rng.next() << 64) | (rng.next() << 128) | (rng.next() << 192) | (rng.next() << 256)
            v = v >> (320 - k if k else 320)
            if rng.below(3) == 0:
                v = -v
            for f in forms(v, rng):
                lits.append((f, name))
        for f in ["0", "-0", "00", "0_0", "-00", "0x0", "0b0", "0o0", "07", "08", "09", "010", "0_1_0", "0127", "-0127", "0777", "00000000000000000000000000001"]:
            lits.append((f, name))
    return lits


MALFORMED = ["", "-", "0x", "0b", "0o", "1__2", "_1", "1_", "0b2", "0o8", "+5", "--5", "0x_1", "1e5", "1.5", "0xG", " 1", "1 ", "0x-1",
             "-0x", "0X_", "12a", "0b_1", "١٢", "0x" + "f" * 100, "9" * 400]


def main():
    tier = os.environ.get("VERIF_TIER", "quick")
    rep = Report(PID)
    rng = SplitMix64(seed() * 7919 + 10)
    stats = {}
    try:
        hook = build_gohook()
        drv = fvdriver()
    except BuildError as e:
        log(str(e))
        rep.fail("tie:build", "gohook / driver no longer builds against the tree (tie broken)",
                 {"kind": "broken-obligation", "correspondence": "gohook numparse", "detail": str(e)[-2000:]}, no_input=True)
        write_evidence(PID, "proof", {"obligations": 1, "discharged": 0, "checker_cmd": "lake build FerretVerif.Props.C10",
                                      "trusted_base": [], "explanation": "build failed"}, violations=1)
        return rep.finish()

    lits = gen_literals(rng, tier)
    allp = lits + [(m, "i32") for m in MALFORMED]
    tmap = {n: (b, s) for n, b, s in INT_TYPES}

    # ---- function level
    hexes = [t.encode().hex() for t, _ in allp]
    np_out = run([hook, "numparse"], input="".join(h + "\n" if h else "00\n" for h in hexes), check=True).stdout.split("\n")
    fit_out = run([hook, "fitshex"], input="".join("%s %s\n" % (h or "00", ty) for h, (_, ty) in zip(hexes, allp)), check=True).stdout.split("\n")
    big_out = run([hook, "bigparse"], input="".join(h + "\n" if h else "00\n" for h in hexes), check=True).stdout.split("\n")
    m_out = run_driver(["literal"], "".join("%s %d %s\n" % (h or "00", tmap[ty][0], "s" if tmap[ty][1] else "u")
                                            for h, (_, ty) in zip(hexes, allp))).split("\n")
    diffs = []
    checked = 0
    for i, (txt, ty) in enumerate(allp):
        if not hexes[i]:
            continue
        bits, sg = tmap[ty]
        lo, hi = rng_of(bits, sg)
        sv = spec_val(txt)
        mf = m_out[i].split()
        if len(mf) != 6:
            diffs.append({"lit": txt, "model": m_out[i]}); continue
        m_islit, m_spec, m_new, m_old, m_fits, m_big = mf
        go_np = np_out[i].split()
        go_val = go_np[1] if go_np and go_np[0] == "ok" and len(go_np) > 1 else "none"
        go_big = big_out[i].split()
        go_bigv = go_big[1] if go_big and go_big[0] == "ok" and len(go_big) > 1 else "none"
        # correspondence model vs code
        if go_val != m_new or fit_out[i] != m_fits or go_bigv != m_big:
            if len(diffs) < 20:
                diffs.append({"lit": txt, "type": ty, "go": [go_val, fit_out[i], go_bigv], "model": [m_new, m_fits, m_big], "old_model": m_old})
        # model's spec vs the oracle's (sanity of the Lean spec itself)
        if (sv is not None) != (m_islit == "true") or (sv is not None and str(sv) != m_spec):
            rep.fail("specdiff:" + txt, "Lean spec (isIntLit/specVal) and the reference grammar disagree on %r" % txt,
                     {"kind": "broken-obligation", "correspondence": "Lean specVal vs python reference", "lit": txt}, no_input=True)
        if sv is None:
            continue
        checked += 1
        # property oracle on the real functions
        want_fit = "true" if lo <= sv <= hi else "false"
        if fit_out[i] != want_fit:
            rep.fail("fits:%s:%s" % (txt, ty), "range check of literal %s for %s says %s but its value %d is %s the range [%d, %d]"
                     % (txt, ty, fit_out[i], sv, "inside" if want_fit == "true" else "outside", lo, hi),
                     {"kind": "input", "literal": txt, "type": ty, "expected": want_fit, "observed": fit_out[i], "cmd": "gohook fitshex"})
        if go_val != str(sv):
            rep.fail("value:%s" % txt, "literal %s has value %d but the compiler's constant normalisation yields %s" % (txt, sv, go_val),
                     {"kind": "input", "literal": txt, "expected": str(sv), "observed": go_val, "cmd": "gohook numparse (numeric.NewNumericValue(s).String())"})
    stats["function_level"] = {"cases": len(allp), "valid_literals_checked": checked, "model_vs_code_diffs": len(diffs)}

    # ---- whole compiler: accepted literals print their value; out-of-range literals are rejected
    per_type_ok, rejects = {}, []
    quota = 14 if tier == "quick" else 60
    for txt, ty in lits:
        sv = spec_val(txt)
        bits, sg = tmap[ty]
        lo, hi = rng_of(bits, sg)
        if lo <= sv <= hi:
            per_type_ok.setdefault(ty, [])
            if len(per_type_ok[ty]) < quota * 3 and (txt, sv) not in per_type_ok[ty]:
                per_type_ok[ty].append((txt, sv))
        elif abs(sv - (lo if sv < lo else hi)) <= 2 and len([r for r in rejects if r[1] == ty]) < quota:
            rejects.append((txt, ty, sv))
    jobs, meta = [], []
    for ty, items in per_type_ok.items():
        items = items[:quota * 3]
        # three positions: let initialiser, argument, return value
        src = ['import "std/io";', "fn show(v: %s) { io::Println(v); }" % ty]
        for k, (txt, sv) in enumerate(items):
            if k % 3 == 2:
                src.append("fn get%d() -> %s { return %s; }" % (k, ty, txt))
        src.append("fn main() {")
        for k, (txt, sv) in enumerate(items):
            if k % 3 == 0:
                src.append("    let v%d: %s = %s;\n    io::Println(v%d);" % (k, ty, txt, k))
            elif k % 3 == 1:
                src.append("    show(%s);" % txt)
            else:
                src.append("    io::Println(get%d());" % k)
        src.append("}")
        jobs.append({"files": {"main.fer": "\n".join(src) + "\n"}, "mode": "run"})
        meta.append(("accept", ty, items))
    # the same literal written twice in one function, the first occurrence on a path that is NOT taken (other arm of an if, a loop that runs zero
    # times, an earlier match arm, a closure that is never called): each occurrence has to materialise its own value
    for ty, items in per_type_ok.items():
        pick = items[:: max(1, len(items) // 4)][:4]
        src = ['import "std/io";']
        exp = []
        for k, (txt, sv) in enumerate(pick):
            src += ["fn br%d(c: bool) -> %s {\n    if c {\n        return %s;\n    }\n    return %s;\n}" % (k, ty, txt, txt),
                    "fn lp%d(n: i32) -> %s {\n    let i: i32 = 0;\n    while i < n {\n        let w: %s = %s;\n        io::Println(w);\n        i = i + 1;\n    }\n    return %s;\n}" % (k, ty, ty, txt, txt),
                    "fn ma%d(x: i32) -> %s {\n    match x {\n        1 => { return %s; }\n        _ => { return %s; }\n    }\n}" % (k, ty, txt, txt),
                    "fn el%d(c: bool) -> %s {\n    let r: %s = 0;\n    if c {\n        r = %s;\n    } else {\n        r = %s;\n    }\n    return r;\n}" % (k, ty, ty, txt, txt)]
        src.append("fn main() {")
        for k, (txt, sv) in enumerate(pick):
            src += ["    io::Println(br%d(false));" % k, "    io::Println(lp%d(0));" % k, "    io::Println(ma%d(2));" % k, "    io::Println(el%d(false));" % k, "    io::Println(br%d(true));" % k]
            exp += [(txt, sv)] * 5
        src.append("}")
        jobs.append({"files": {"main.fer": "\n".join(src) + "\n"}, "mode": "run"})
        meta.append(("accept-paths", ty, exp))
    for txt, ty, sv in rejects:
        pos = len(jobs) % 3
        if pos == 0:
            body = "fn main() {\n    let v: %s = %s;\n}\n" % (ty, txt)
        elif pos == 1:
            body = "fn show(v: %s) { }\nfn main() {\n    show(%s);\n}\n" % (ty, txt)
        else:
            body = "fn get() -> %s { return %s; }\nfn main() {\n    let v := get();\n}\n" % (ty, txt)
        jobs.append({"files": {"main.fer": body}, "mode": "check"})
        meta.append(("reject", ty, (txt, sv)))
    results = run_many(jobs)
    wc = {"programs": len(jobs), "accepted_values_checked": 0, "rejections_checked": 0}
    for (kind, ty, info), r, job in zip(meta, results, jobs):
        if kind == "accept-paths":
            got = r.lines if r.accepted and r.run_rc == 0 else []
            for k, (txt, sv) in enumerate(info):
                wc["accepted_values_checked"] += 1
                g = got[k] if k < len(got) else None
                if g != str(sv):
                    posn = ["after an untaken if-branch holding the same literal", "after a zero-iteration loop holding the same literal", "in a later match arm", "in an else branch", "in the taken if-branch"][k % 5]
                    rep.fail("printed-path:%s:%s" % (txt, ty), "literal %s : %s written twice in one function, occurrence %s, prints %s, its value is %d (compile exit %s, run exit %s)" % (txt, ty, posn, g, sv, r.compile_rc, r.run_rc),
                             {"kind": "input", "files": job["files"], "line_index": k, "cmd": "ferret -o out main.fer && ./out", "expected": str(sv), "observed": g})
                    break
            continue
        if kind == "accept":
            if not r.accepted or r.run_rc != 0:
                # find the literal(s) responsible by compiling them one by one
                singles = run_many([{"files": {"main.fer": 'import "std/io";\nfn main() {\n    let v: %s = %s;\n    io::Println(v);\n}\n' % (ty, txt)}, "mode": "run"} for txt, sv in info])
                for (txt, sv), rs in zip(info, singles):
                    if not rs.accepted:
                        rep.fail("rejected:%s:%s" % (txt, ty), "in-range literal %s (= %d) is rejected as %s initialiser" % (txt, sv, ty),
                                 {"kind": "input", "files": {"main.fer": 'fn main() {\n    let v: %s = %s;\n}\n' % (ty, txt)}, "cmd": "ferret -t main.fer",
                                  "expected": "accepted", "observed": strip_ansi(rs.compile_out)[-600:]})
                    elif rs.lines != [str(sv)]:
                        rep.fail("printed:%s:%s" % (txt, ty), "literal %s : %s prints %s, its value is %d" % (txt, ty, rs.lines, sv),
                                 {"kind": "input", "files": {"main.fer": 'import "std/io";\nfn main() {\n    let v: %s = %s;\n    io::Println(v);\n}\n' % (ty, txt)},
                                  "cmd": "ferret -o out main.fer && ./out", "expected": [str(sv)], "observed": rs.lines})
                    wc["accepted_values_checked"] += 1
                continue
            got = r.lines
            for k, (txt, sv) in enumerate(info):
                wc["accepted_values_checked"] += 1
                g = got[k] if k < len(got) else None
                if g != str(sv):
                    posn = ["let", "argument", "return"][k % 3]
                    rep.fail("printed:%s:%s" % (txt, ty), "literal %s : %s (%s position) prints %s, its value is %d" % (txt, ty, posn, g, sv),
                             {"kind": "input", "files": job["files"], "line_index": k, "cmd": "ferret -o out main.fer && ./out",
                              "expected": str(sv), "observed": g})
        else:
            txt, sv = info
            wc["rejections_checked"] += 1
            if r.accepted:
                rep.fail("accepted:%s:%s" % (txt, ty), "out-of-range literal %s (= %d) is accepted for %s" % (txt, sv, ty),
                         {"kind": "input", "files": job["files"], "cmd": "ferret -t main.fer", "expected": "rejected", "observed": "accepted"})
    stats["whole_compiler"] = wc

    # ---- proof obligations
    ok, out = lake_build(["FerretVerif.Props.C10"])
    names = theorem_names("C10")
    axioms, discharged = {}, 0
    if ok:
        axioms, _ = audit_theorems("C10", names)
        for n in names:
            ax = axioms.get(n)
            if ax is not None and set(ax) <= ALLOWED_AXIOMS:
                discharged += 1
            else:
                rep.fail("axioms:" + n, "theorem %s missing or depends on unexpected axioms %s" % (n, ax),
                         {"kind": "broken-obligation", "theorem": n, "axioms": ax}, no_input=True)
    else:
        log(out[-3000:])
        rep.fail("proof:C10", "Props/C10.lean no longer builds", {"kind": "broken-obligation", "detail": out[-3000:]}, no_input=True)
    forb = grep_forbidden()
    if forb:
        rep.fail("audit:forbidden", "forbidden construct in Lean sources: %s" % forb[:3], {"kind": "broken-obligation", "hits": forb[:20]}, no_input=True)
    if diffs and not rep.violations and not rep.known_hit:
        rep.fail("tie:literal", "Model/Literal.lean and internal/utils/numeric disagree on %d inputs although no valid literal is mishandled" % len(diffs),
                 {"kind": "broken-obligation", "correspondence": "fvdriver literal vs gohook numparse/fitshex/bigparse", "diffs": diffs}, no_input=True)

    cov = {
        "obligations": len(names), "discharged": discharged,
        "checker_cmd": "cd /verif/lean && lake build FerretVerif.Props.C10 && #print axioms per theorem",
        "trusted_base": ["Lean 4 kernel", "axioms: " + ", ".join(sorted({a for v in axioms.values() if v for a in v})),
                         "gohook numparse/fitshex/bigparse (overlay build)", "python reference grammar + int() as violation oracle",
                         "QBE's parsing of decimal constants; bigint.c from_string tied under C16"],
        "theorems": [{"name": n, "axioms": axioms.get(n)} for n in names],
        "evaluations": len(allp) + wc["accepted_values_checked"] + wc["rejections_checked"],
        "distinct_nontrivial": len({t for t, _ in lits if spec_val(t) is not None and ("_" in t or t.lstrip("-")[:1] == "0")}),
        "rule": "per type both range ends +-{0,1,2} in 11 spellings (4 bases, separators, leading zeros, negated), random magnitudes up to 2^300, "
                "malformed stream; non-trivial = distinct valid literals with a separator, a base prefix or a leading zero",
        "samples": [list(x) for x in lits[3:len(lits):max(1, len(lits) // 10)]],
        "model_vs_code_diffs": diffs[:10],
    }
    cov.update(stats)
    write_evidence(PID, "proof", cov, assumptions=["float literals are outside C10", "QBE and the assembler preserve decimal constants"],
                   violations=len(rep.violations))
    return rep.finish()


if __name__ == "__main__":
    sys.exit(main())
