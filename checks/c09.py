"""C09 — behaviour does not depend on what the compiler can evaluate early.
Theorems: Props/C09.lean (the reference semantics treats `if true {}`, const-for-let and literal folding as the property says).
Tie / observation: pairs (program, rewritten program) for the four rewrites of the property — literal -> call returning it,
side-effect-free subexpression -> fresh immutable local, never-reassigned let -> const, statements wrapped in `if true { }` —
are (a) run through the Lean reference interpreter (must print the same: a TEST of the rewrite engine against the semantics),
(b) compiled with the real compiler for both targets: same verdict (apart from the fixed-array constant-index rule) and same
output as the unrewritten program."""
import re, os, sys, json, hashlib
sys.path.insert(0, os.path.join(os.path.dirname(os.path.abspath(__file__)), "..", "lib"))
from common import *
from wholeprog import *
from coredsl import *
import coregen, catalogue, rewrite
from shrink import parse, show

PID = "C09"
FEATS = {"cast", "struct", "method", "method-val", "struct-fn", "fixed-array", "dyn-array", "match", "while", "for", "recursion", "optional"}


def narrow_grid(rng):
    """8/16-bit arithmetic on boundary operands (taken from calls, so nothing is folded) feeding a widening cast, a comparison, an
    argument and a print — the places where register width and declared width may differ"""
    t = rng.choice(["i8", "i16", "u8", "u16"])
    ops = ["add", "sub", "mul", "div", "rem"]
    vals = sorted({tmin(t), tmax(t), tmin(t) + 1, tmax(t) - 1, 0, 1, 2, 3, wrap(t, -1), wrap(t, -2), wrap(t, 100)})
    body = []
    MIN, MAX = tmin(t), tmax(t)
    if signed(t):
        edge = [("add", MAX, 1), ("add", MAX, MAX), ("add", MIN, -1), ("sub", MIN, 1), ("sub", MAX, -1), ("sub", 0, MIN), ("mul", MAX, 2), ("mul", MIN, -1), ("mul", MIN, 2),
                ("mul", MAX, MAX), ("div", MIN, -1), ("div", MAX, -1), ("div", MIN, 2), ("rem", MIN, -1), ("rem", MIN, 3), ("rem", MAX, -2)]
    else:
        edge = [("add", MAX, 1), ("add", MAX, MAX), ("sub", 0, 1), ("sub", 1, MAX), ("mul", MAX, 2), ("mul", MAX, MAX), ("div", MAX, 1), ("div", MAX, MAX), ("rem", MAX, 2)]
    k0 = rng.below(len(edge))
    for q in range(8):
        if q < 5:
            op, a, b = edge[(k0 + q * 3) % len(edge)]          # the operand pairs whose exact result leaves the type (all of them over a few programs)
        else:
            op = rng.choice(ops)
            a, b = rng.choice(vals), rng.choice(vals)
        if op in ("div", "rem") and b == 0: b = wrap(t, -1) if signed(t) else 1
        e = Bin(op, t, Call("id_" + t, I(t, a)), Call("id_" + t, I(t, b)))
        w = rng.choice(["i32", "i64", "u32"])
        r = (q + k0) % 5
        if r == 0: body.append(Print(Cast(t, w, e)))
        elif r == 1: body.append(If(Bin(rng.choice(["lt", "ge", "eq"]), t, e, Call("id_" + t, I(t, rng.choice(vals)))), [Print(I("i32", 1))], [Print(I("i32", 0))]))
        elif r == 2: body.append(Print(Call("wide", Cast(t, "i64", e))))
        elif r == 3: body += [Let("x%d" % len(body), w, Cast(t, w, e)), Print(V("x%d" % (len(body))))]
        else: body.append(Print(e))
    return Prog(opaque(t), Fn("wide", [("v", "i64")], "i64", Ret(Bin("add", "i64", V("v"), I("i64", 1000)))), Main(*body))


_WIDE_EDGES = {}


def wide_edges(t):
    """all (op, a, b) over boundary operands whose exact result is in range and within one bit of the type's width
    (operands stay below 2^63: u64 arithmetic on a literal above the i64 range is miscompiled in the baseline, probe u64-arith-on-literal-above-i64-max)"""
    if t not in _WIDE_EDGES:
        lo, hi = tmin(t), tmax(t)
        cand = sorted({v for v in [2, 3, 7, 1000, 46340, 46341, 65535, 65536, 92681, 2 ** 31 - 1, 2 ** 31, 2 ** 32 - 1, 2 ** 32, 3000000000, 3037000499, 3037000500, 4000000000, 4294967295,
                                   2 ** 62, 2 ** 63 - 1, -1, -2, -3, -46341, -65536, -(2 ** 31), -(2 ** 63), -3037000500, -3037000499] if lo <= v <= hi})
        bits = int(t[1:])
        out = []
        for op in ("mul", "add", "sub"):
            for a in cand:
                for b in cand:
                    r = {"mul": a * b, "add": a + b, "sub": a - b}[op]
                    if lo <= r <= hi and abs(r).bit_length() >= bits - 1 - (1 if signed(t) else 0):
                        out.append((op, a, b))
        res = lambda e: {"mul": e[1] * e[2], "add": e[1] + e[2], "sub": e[1] - e[2]}[e[0]]
        out.sort(key=lambda e: (-abs(res(e)).bit_length(), e[0] != "mul", -(abs(e[1]).bit_length() + abs(e[2]).bit_length())))
        _WIDE_EDGES[t] = out
    return _WIDE_EDGES[t]


def wide_const_grid(rng, k):
    """32/64-bit arithmetic on LITERAL operands whose exact result is in range but next to the 2^31 / 2^32 / 2^63 / 2^64 boundaries (the compiler folds
    these; the literal -> call rewrite makes the same arithmetic happen at run time); printed directly and through a let.  Program k takes the k-th
    slice of every type's edge list, so a few programs cover all of them."""
    body = []
    for ti, t in enumerate(["u64", "i64", "u32", "i32"]):
        edges = wide_edges(t)
        per = 8 if t[1:] == "64" else 2
        for j in range(per):
            op, a, b = edges[(k * per + j) % len(edges)]
            e = Bin(op, t, I(t, a), I(t, b))
            r = {"mul": a * b, "add": a + b, "sub": a - b}[op]
            q = len(body)
            if q % 3 == 0 and tmin(t) <= r + 1 <= tmax(t): e = Bin("add", t, I(t, 1), e)
            body += [Let("w%d" % q, t, e), Print(V("w%d" % q))]       # always through a typed let: a bare literal expression has no declared width
    return Prog(Main(*body))


def const_flow(rng):
    """constants meeting control flow: let-bound literals used in conditions, loop bounds, dynamic-array indices, match scrutinees"""
    t = rng.choice(["i32", "i64", "u8", "i16"])
    n = 3 + rng.below(3)
    vals = [wrap(t, 10 * k + rng.below(9)) for k in range(n)]
    k1, k2 = rng.below(n), rng.below(n)
    body = [Let("d", TD(t), ALit(*[I(t, v) for v in vals])), Let("i", "i32", I("i32", k1)), Let("j", "i32", I("i32", k2)), Let("lim", "i32", I("i32", 1 + rng.below(3))),
            Print(Idx(V("d"), V("i"))), Print(Idx(V("d"), Bin("sub", "i32", V("j"), I("i32", k2)))),
            If(Bin("lt", "i32", V("i"), V("lim")), [Print(I("i32", 1))], [Print(I("i32", 2))]),
            Let("w", "i32", I("i32", 0)), While(Bin("lt", "i32", V("w"), V("lim")), Print(Bin("mul", "i32", V("w"), V("j"))), Inc("i32", V("w"))),
            Set(V("d"), Call("mk", I("i32", n + 2))), Print(Idx(V("d"), I("i32", n + 1))), Print(Idx(V("d"), I("i32", -1))), Print(Len(V("d"))),
            Match(V("j"), [(I("i32", k2), [Print(I("i32", 7))]), (I("i32", (k2 + 1) % 9), [Print(I("i32", 8))])], default=[Print(I("i32", 9))]),
            Let("big", "i64", I("i64", 2147483647)), Print(Bin("add", "i64", V("big"), I("i64", 1))),
            Let("s8", "i8", I("i8", 127)), Print(Cast("i8", "i32", Bin("add", "i8", V("s8"), I("i8", 1))))]
    mk = Fn("mk", [("n", "i32")], TD(t), Let("r", TD(t), ALit(I(t, 0))), Let("q", "i32", I("i32", 1)),
            While(Bin("lt", "i32", V("q"), V("n")), Append(V("r"), Cast("i32", t, Bin("mul", "i32", V("q"), I("i32", 3)))), Set(V("q"), Bin("add", "i32", V("q"), I("i32", 1)))), Ret(V("r")))
    return Prog(mk, Main(*body))


def variants(rng, sx, per_kind):
    tree = parse(sx)
    out = []
    k = [0]

    def pick(sites):
        sites = list(sites)
        res = []
        for _ in range(min(per_kind, len(sites))):
            res.append(sites.pop(rng.below(len(sites))))
        return res
    for p in pick(rewrite.sites_lit(tree)):
        k[0] += 1; out.append(("lit-to-call", show(rewrite.apply_lit(tree, p, k[0]))))
    for s in pick(rewrite.sites_bind(tree)):
        k[0] += 1; out.append(("bind-fresh-" + rng.choice(["let", "const"]), show(rewrite.apply_bind(tree, s, k[0], "const" if out and out[-1][0].endswith("let") else "let"))))
    for p in pick(rewrite.sites_const(tree)):
        out.append(("let-to-const", show(rewrite.apply_const(tree, p))))
    for s in pick(rewrite.sites_wrap(tree)):
        out.append(("wrap-if-true", show(rewrite.apply_wrap(tree, s))))
    # a composition of several rewrites
    t2, names = tree, []
    for _ in range(3):
        r = rng.below(4)
        try:
            if r == 0:
                ss = rewrite.sites_lit(t2)
                if ss: k[0] += 1; t2 = rewrite.apply_lit(t2, rng.choice(ss), k[0]); names.append("lit")
            elif r == 1:
                ss = rewrite.sites_bind(t2)
                if ss: k[0] += 1; t2 = rewrite.apply_bind(t2, rng.choice(ss), k[0]); names.append("bind")
            elif r == 2:
                ss = rewrite.sites_const(t2)
                if ss: t2 = rewrite.apply_const(t2, rng.choice(ss)); names.append("const")
            else:
                ss = rewrite.sites_wrap(t2)
                if ss: t2 = rewrite.apply_wrap(t2, rng.choice(ss)); names.append("wrap")
        except Exception:
            break
    if names: out.append(("combo:" + "+".join(names), show(t2)))
    return out


bad_base = set()

# hand-written (program, rewritten program) pairs outside the generated fragment (floats): (name, rewrite, original, rewritten)
_FP = 'import "std/io";\n'
FIXED_PAIRS = [
    ("float-quotient-literal", "lit-to-call", _FP + "fn main() {\n    let f: f64 = 1.0/3.0;\n    io::Println(f);\n}\n",
     _FP + "fn one() -> f64 { return 1.0; }\nfn main() {\n    let f: f64 = one()/3.0;\n    io::Println(f);\n}\n"),
    ("float-sum-literal", "lit-to-call", _FP + "fn main() {\n    let f: f64 = 0.5 + 0.25;\n    io::Println(f);\n}\n",
     _FP + "fn half() -> f64 { return 0.5; }\nfn main() {\n    let f: f64 = half() + 0.25;\n    io::Println(f);\n}\n"),
    ("float-let-to-const", "let-to-const", _FP + "fn main() {\n    let f: f64 = 2.5;\n    let g: f64 = f * 2.0;\n    io::Println(g);\n}\n",
     _FP + "fn main() {\n    const f: f64 = 2.5;\n    let g: f64 = f * 2.0;\n    io::Println(g);\n}\n"),
    ("float-if-true", "wrap-if-true", _FP + "fn main() {\n    let f: f64 = 1.5;\n    io::Println(f + 0.25);\n}\n",
     _FP + "fn main() {\n    let f: f64 = 1.5;\n    if true {\n        io::Println(f + 0.25);\n    }\n}\n"),
    ("final-return-in-if-true", "wrap-if-true", _FP + "fn one() -> i32 {\n    return 1;\n}\nfn main() {\n    io::Println(one());\n}\n",
     _FP + "fn one() -> i32 {\n    if true {\n        return 1;\n    }\n}\nfn main() {\n    io::Println(one());\n}\n"),
    ("catch-handler-return-in-if-true", "wrap-if-true",
     _FP + "fn safediv(a: i32, b: i32) -> str ! i32 {\n    if b == 0 { return \"div by zero\"!; }\n    return a / b;\n}\nfn main() {\n    safediv(1, 0) catch e { io::Println(e); return; };\n    io::Println(999);\n}\n",
     _FP + "fn safediv(a: i32, b: i32) -> str ! i32 {\n    if b == 0 { return \"div by zero\"!; }\n    return a / b;\n}\nfn main() {\n    safediv(1, 0) catch e { if true { io::Println(e); return; } };\n    io::Println(999);\n}\n"),
    ("float-bind-subexpression", "bind-fresh-let", _FP + "fn main() {\n    let a: f64 = 3.0;\n    io::Println((a * 2.0) + 1.0);\n}\n",
     _FP + "fn main() {\n    let a: f64 = 3.0;\n    let t: f64 = a * 2.0;\n    io::Println(t + 1.0);\n}\n"),
]


def check_fixed_pairs(rep, st):
    jobs = []
    for name, vk, a, b in FIXED_PAIRS:
        jobs += [{"files": {"main.fer": a}, "mode": "run", "timeout": 30}, {"files": {"main.fer": b}, "mode": "run", "timeout": 30}]
    res = run_many(jobs)
    st["fixed_pairs"] = len(FIXED_PAIRS)
    for i, (name, vk, a, b) in enumerate(FIXED_PAIRS):
        ra, rb = res[2 * i], res[2 * i + 1]
        rp = {"kind": "input", "rewrite": vk, "base_files": {"main.fer": a}, "files": {"main.fer": b}, "cmd": "ferret -o out main.fer && ./out   (for both programs)"}
        if ra.accepted != rb.accepted:
            errs = [d[2][:90] for d in (ra if not ra.accepted else rb).diags if d[0] == "error"][:2]
            rep.fail("fixed-pair:" + name, "rewrite %s changes the compiler's verdict: original %s, rewritten %s (%s)" % (vk, "accepted" if ra.accepted else "rejected", "accepted" if rb.accepted else "rejected", errs), rp)
        elif ra.accepted and (ra.lines, ra.run_rc) != (rb.lines, rb.run_rc):
            rep.fail("fixed-pair-output:" + name, "rewrite %s changes the output: %s vs %s" % (vk, ra.lines[:4], rb.lines[:4]), rp)


def main():
    tier = os.environ.get("VERIF_TIER", "quick")
    rep = Report(PID)
    rng = SplitMix64(seed() * 49979687 + 9)
    try:
        build_ferret(); fvdriver()
    except BuildError as e:
        log(str(e))
        rep.fail("tie:build", "compiler / driver no longer builds (tie broken)", {"kind": "broken-obligation", "detail": str(e)[-2000:]}, no_input=True)
        write_evidence(PID, "other", {"explanation": "build failed", "obligations": 1, "discharged": 0}, violations=1)
        return rep.finish()
    nb = 10 if tier == "quick" else 50
    bases = []
    for i in range(nb): bases.append(("random", coregen.Gen(SplitMix64(seed() * 7000 + i), FEATS).program()))
    for i in range(nb): bases.append(("narrow", narrow_grid(rng)))
    for i in range(nb // 2): bases.append(("const-flow", const_flow(rng)))
    for i in range(nb): bases.append(("wide-const", wide_const_grid(rng, (seed() - 1) * nb + i)))
    import c08
    for i in range(nb // 2): bases.append(("dyn-history", c08.history(rng, rng.choice(["i32", "i64", "u8"]), "none")))
    for t in ("i32", "i64", "u8"): bases.append(("dyn-history", c08.reassign_longer(t)))
    for name, feats, sx in catalogue.PROBES[:: (9 if tier == "quick" else 1)]: bases.append(("probe:" + name, sx))
    per_kind = 2 if tier == "quick" else 4
    bm = model_run([b for _, b in bases])
    progs, meta = [], []
    for (kind, sx), m in zip(bases, bm):
        if "text" not in m or not (m["term"] == "exit" or m["term"].startswith("panic")): continue
        bi = len(progs); progs.append(sx); meta.append((kind, "base", bi))
        for vk, vsx in variants(rng, sx, per_kind if kind != "narrow" else 8):
            progs.append(vsx); meta.append((kind, vk, bi))
    ms = model_run(progs)
    st = {"bases": sum(1 for m in meta if m[1] == "base"), "variants": sum(1 for m in meta if m[1] != "base"), "by_rewrite": {}, "model_mismatch": 0, "exempt_const_index": 0,
          "compared_native": 0, "compared_wasm": 0, "both_rejected": 0}
    # (a) the rewrite engine against the reference semantics
    usable = [True] * len(progs)
    for i, ((kind, vk, bi), m) in enumerate(zip(meta, ms)):
        if vk == "base": continue
        st["by_rewrite"][vk.split(":")[0]] = st["by_rewrite"].get(vk.split(":")[0], 0) + 1
        b = ms[bi]
        if "text" not in m or m.get("lines") != b.get("lines") or m.get("term") != b.get("term"):
            usable[i] = False
            st["model_mismatch"] += 1
            rep.fail("rewrite-model:" + hashlib.sha1(progs[i].encode()).hexdigest()[:12], "rewrite %s changes the REFERENCE semantics' result of a %s program (rewrite engine or Core/Eval wrong): %s vs %s" %
                     (vk, kind, (m.get("lines") or [m.get("error")])[-3:], b["lines"][-3:]),
                     {"kind": "broken-obligation", "correspondence": "lib/rewrite.py vs Core/Eval (Props/C09 statements)", "base": ms[bi].get("text"), "variant": m.get("text", progs[i])}, no_input=True)
    # (b) the compiler
    base_checked = {"native": set(), "wasm": set()}
    for target in ("native", "wasm"):
        res = run_many([{"files": {"main.fer": m.get("text", "")}, "mode": "run", "target": target, "timeout": 30} for m in ms])
        for i, ((kind, vk, bi), m, r) in enumerate(zip(meta, ms, res)):
            if vk == "base" or not usable[i]: continue
            if (target, bi) in bad_base: continue
            b, rb = ms[bi], res[bi]
            if (target, bi) in bad_base: continue
            if kind in ("wide-const", "dyn-history", "narrow", "const-flow") and target == "native" and not rb.accepted and ("rej", bi) not in bad_base:
                # these bases are valid by construction (every result in range, every index in bounds) and accepted on the baseline: a rejection is
                # the compiler's early evaluation going wrong
                bad_base.add(("rej", bi))
                errs0 = [d[2][:100] for d in rb.diags if d[0] == "error"][:2]
                rep.fail("baserej:%s" % hashlib.sha1(b["text"].encode()).hexdigest()[:12], "a %s program that is valid by construction (results in range, indices in bounds) is REJECTED (%s); what the compiler evaluated early is wrong" % (kind, errs0),
                         {"kind": "input", "files": {"main.fer": b["text"]}, "expected": {"lines": b["lines"]}, "observed": strip_ansi(rb.compile_out)[-500:], "cmd": "ferret -t main.fer"})
            if target == "wasm" and not rb.accepted: continue           # outside the common domain
            if bi not in base_checked[target] and not kind.startswith("probe:"):        # probes: C01/C02 own them (baseline + known findings)
                base_checked[target].add(bi)
                c0 = compare(b, rb, target)
                if c0 and rb.accepted and target == "wasm" and re.search(r'function="ferret_[iuf](128|256)_', rb.stderr or ""):
                    # the module imports a 128/256-bit helper the shipped runtime.js lacks: the catalogue's known finding, whatever program reaches it
                    rep.fail("base:wasm:128-bit-helper-imports", "a %s base program needs 128-bit helpers on wasm" % kind, {"kind": "input", "files": {"main.fer": b["text"]}})
                    bad_base.add((target, bi))
                elif c0 and rb.accepted:
                    rep.fail("base:%s:%s" % (target, hashlib.sha1(b["text"].encode()).hexdigest()[:12]), "a %s base program already differs from the reference semantics on %s (early evaluation suspected): %s" % (kind, target, c0[:200]),
                             {"kind": "input", "target": target, "files": {"main.fer": b["text"]}, "expected": {"lines": b["lines"], "term": b["term"]}, "observed": rb.lines[:60], "cmd": "ferret -o out main.fer && ./out"})
            key = "%s:%s:%s" % (vk.split(":")[0], target, hashlib.sha1(m["text"].encode()).hexdigest()[:12])
            rp = {"kind": "input", "rewrite": vk, "target": target, "files": {"main.fer": m["text"]}, "base_files": {"main.fer": b["text"]},
                  "cmd": "ferret -o out main.fer && ./out   (for both programs)"}
            if rb.accepted != r.accepted:
                errs = [d for d in (r.diags if rb.accepted else rb.diags) if d[0] == "error"]
                if errs and all(d[1] == "T0028" for d in errs):
                    st["exempt_const_index"] += 1; continue
                vkey = "verdict:" + key
                if "wrap" in vk and rb.accepted and errs and all(("borrowed" in d[2]) for d in errs):
                    # one defect, one key: the borrow checker keeps a loan alive up to the outer statement that contains its last use, so statements
                    # moved into an `if true { }` block together see the loan although its last use has passed
                    vkey = "verdict:wrap-if-true:loan-kept-to-end-of-wrapped-statement:" + target
                if "wrap" in vk and rb.accepted and errs and all(("catch handler must return early" in d[2] or "not all code paths" in d[2]) for d in errs):
                    # one defect, one key: the return analysis takes no account of constant conditions, so a `return` that ends a non-void function or
                    # a catch handler, once wrapped in `if true { }`, leaves an end the analysis believes reachable
                    vkey = "verdict:wrap-if-true:return-analysis-ignores-constant-condition:" + target
                if "lit" in vk and rb.accepted and errs and all(("mismatched types in arithmetic: &" in d[2]) for d in errs):
                    # one defect, one key: arithmetic reads through a reference only when the other operand is a literal
                    vkey = "verdict:reference-operand-needs-literal:" + target
                rep.fail(vkey, "rewrite %s of a %s program changes the compiler's verdict on %s: original %s, rewritten %s (%s)" %
                         (vk, kind, target, "accepted" if rb.accepted else "rejected", "accepted" if r.accepted else "rejected", [d[2][:80] for d in errs][:2]),
                         dict(rp, observed=strip_ansi((r if rb.accepted else rb).compile_out)[-500:]))
                continue
            if not rb.accepted:
                st["both_rejected"] += 1; continue
            st["compared_" + target] += 1
            if (rb.lines, rb.run_rc == 0) != (r.lines, r.run_rc == 0):
                j = next((k for k in range(min(len(r.lines), len(rb.lines))) if r.lines[k] != rb.lines[k]), min(len(r.lines), len(rb.lines)))
                rep.fail("output:" + key, "rewrite %s of a %s program changes its output on %s: line %d is %r, the original prints %r (reference semantics: %r)" %
                         (vk, kind, target, j, r.lines[j] if j < len(r.lines) else None, rb.lines[j] if j < len(rb.lines) else None, b["lines"][j] if j < len(b["lines"]) else None),
                         dict(rp, expected=rb.lines[:60], observed=r.lines[:60]))

    import qbesel
    try:
        sel_problems, sel_rows, _ = qbesel.gen_qbesel(run=False)
    except BuildError as e:
        sel_problems, sel_rows = [str(e)[-500:]], []
    for pr in sel_problems:
        rep.fail("tie:qbesel", "instruction-selection table cannot be regenerated: " + pr, {"kind": "broken-obligation", "detail": pr}, no_input=True)
    check_fixed_pairs(rep, st)

    ok, outp = lake_build(["FerretVerif.Props.C09"])
    names = theorem_names("C09")
    axioms, discharged = {}, 0
    if ok:
        axioms, _ = audit_theorems("C09", names)
        for nm in names:
            ax = axioms.get(nm)
            if ax is not None and set(ax) <= ALLOWED_AXIOMS: discharged += 1
            else: rep.fail("axioms:" + nm, "theorem %s missing or depends on unexpected axioms %s" % (nm, ax), {"kind": "broken-obligation", "theorem": nm}, no_input=True)
    else:
        log(outp[-3000:])
        rep.fail("proof:C09", "Props/C09.lean no longer builds", {"kind": "broken-obligation", "detail": outp[-3000:]}, no_input=True)
    forb = grep_forbidden()
    if forb:
        rep.fail("audit:forbidden", "forbidden construct in Lean sources: %s" % forb[:3], {"kind": "broken-obligation", "hits": forb[:20]}, no_input=True)
    if st["compared_native"] < st["variants"] // 4:
        rep.fail("vacuous:c09", "only %d of %d rewritten programs were compared on native: the generator no longer fits the compiler" % (st["compared_native"], st["variants"]),
                 {"kind": "broken-obligation", "correspondence": "c09 bases vs compiler"}, no_input=True)
    cov = {
        "explanation": "PARTIAL: the compiler's constant folding / propagation / early evaluation code is not modelled. Kernel-checked: the reference semantics satisfies the rewrite laws the property relies on (if-true = block, if-false = nothing, "
                       "const = let, literal folding correct exactly up to wrapping). Every rewritten program is first run through the Lean interpreter (a test of the rewrite engine against those laws and the laws not proved — "
                       "literal->call, fresh local), then both programs of each pair are compiled and executed on native and wasm.",
        "obligations": len(names), "discharged": discharged,
        "checker_cmd": "cd /verif/lean && lake build FerretVerif.Props.C09 && #print axioms per theorem",
        "trusted_base": ["Lean 4 kernel", "axioms: " + ", ".join(sorted({a for v in axioms.values() if v for a in v})), "Core/Eval.lean as the semantics", "lib/rewrite.py (site selection rules stated in its docstrings)", "Core/Print.lean"],
        "theorems": [{"name": nm, "axioms": axioms.get(nm)} for nm in names],
        "evaluations": len(progs) * 2, "distinct_nontrivial": st["compared_native"] + st["compared_wasm"],
        "rule": "bases: seeded random programs, 8/16-bit boundary arithmetic feeding casts/comparisons/arguments, constants meeting control flow and dynamic-array indices, dynamic-array histories with reassignment, catalogue probes; "
                "variants: up to %d random sites per rewrite kind (literal->call, fresh immutable local as let/const, let->const, if-true wrap) + one composition of three; non-trivial = pairs accepted and executed on a target" % per_kind,
        "samples": [{"kind": k, "rewrite": vk} for (k, vk, _) in meta[1:: max(1, len(meta) // 8)]][:8], "stats": st,
    }
    write_evidence(PID, "other", cov, assumptions=["a rewritten program rejected only with T0028 (fixed-array index must be a compile-time constant) is the documented exception",
                                                     "`if true` wrapping is applied to statement runs without declarations and, in non-void functions, without returns (C05 would rightly reject the latter)"],
                   violations=len(rep.violations))
    return rep.finish()


if __name__ == "__main__":
    sys.exit(main())
