"""C13 — the compiler is total: never crashes or hangs, reports failure faithfully.
Theorems: Props/C13.lean (lexer progress/totality/EOF, bag counters, exit status, pipeline gate) over Model/Lexer.lean and
Model/Diag.lean.  Ties: (1) lexer tables regenerated from the current tokenizer; (2) byte-level correspondence of the lexer
model with lexer.Tokenize; (3) correspondence of the bag model with diagnostics.DiagnosticBag (sequential and concurrent adds);
(4) whole-compiler monitor: mutated programs, raw bytes and broken multi-file projects are compiled with the real binary and
every run is checked against the property itself (bounded time, no crash, exit 0 <=> no error diagnostic, failure => located
error diagnostic, no artefact after failure, artefact after success)."""
import os, sys, json, time, subprocess, shutil, hashlib, itertools
sys.path.insert(0, os.path.join(os.path.dirname(os.path.abspath(__file__)), "..", "lib"))
from common import *
from ferretrun import parse_diags
import lexgen, fuzzgen

PID = "C13"
TIMEOUT = 60


def hexs(b):
    return b.hex() if b else "-"


def lex_streams(rng, n):
    """ASCII inputs for the model-vs-code lexer correspondence: (kind, bytes)"""
    seeds = [s for _, s in fuzzgen.seed_programs() if all(c < 128 for c in s)]
    out = []
    pieces = [b"'a'", b"'\\n'", b"'\\x4G'", b"'\\x41'", b"'\\q'", b"''", b"'ab'", b"'", b"\"", b"\"a\\\"b\"", b"\"\\x41\\x4\\q\\n\"", b"0x_1", b"0x1_", b"0b12", b"0o78", b"1__2", b"1_2.3_4e+5_6",
              b"1.e5", b"1e", b"1e+", b"-0x1F", b"--1", b"a-1", b"a - 1", b"1..2", b"1..=2", b"1...2", b"&'a", b"&&'", b"**=", b"*=*", b"/*/", b"/**/", b"/* /* */ */", b"//\r\n", b"// x\ry",
              b"\t\tx", b"a\tb", b" \t \n\t", b"\x0c\x0b", b"#", b"@x", b"$", b"`", b"~", b"\\", b"\x7f", b"\x00", b"?.", b"???", b"::=", b":==", b"=>>", b"->-", b"<=>", b"!==", b"if8", b"_", b"__x9",
              b"fn", b"fnx", b"let", b"0", b"00", b"0.0.0", b"9e9e9", b"1_", b"_1", b"0X1", b"0B1", b"0O7", b"0xg"]
    for i in range(n):
        k = rng.below(5)
        if k == 0 and seeds:
            s = rng.choice(seeds)
            out.append(("seed", s[:2000]))
        elif k == 1 and seeds:
            kind, s = fuzzgen.mutate(rng, rng.choice(seeds)[:1500])
            out.append(("mut:" + kind, bytes(c for c in s if c < 128)))
        elif k == 2:
            out.append(("pieces", b"".join(rng.choice(pieces) + rng.choice([b"", b" ", b"\n", b"\t"]) for _ in range(1 + rng.below(12)))))
        elif k == 3:
            out.append(("ascii", bytes(rng.below(128) for _ in range(rng.below(60)))))
        else:
            out.append(("punct", bytes(rng.choice(b"{}()[];,.:=<>!&|+-*/%?'\"\\\n\t _09azAF") for _ in range(rng.below(80)))))
    out += [("piece", p) for p in pieces] + [("empty", b"")]
    return out


def monitor_inputs(rng, n):
    """[(kind, files, entry)] for the whole-compiler monitor"""
    seeds = fuzzgen.seed_programs()
    out = []
    for i in range(n):
        k = rng.below(10)
        if k < 6:
            name, src = rng.choice(seeds)
            kind, s = fuzzgen.mutate(rng, src)
            out.append((kind, {"main.fer": s}))
        elif k < 8:
            kind, s = fuzzgen.raw_bytes(rng)
            out.append((kind, {"main.fer": s}))
        else:
            kind, files = fuzzgen.import_case(rng, rng.below(1000))
            if rng.below(2) == 0:        # additionally damage one of the files
                f = rng.choice(sorted(files))
                _, files[f] = fuzzgen.mutate(rng, files[f])
                kind += "+mut"
            out.append((kind, files))
    for i in range(len(fuzzgen.IMPORT_CASES)):
        out.append(fuzzgen.import_case(rng, i))
    for name, src in seeds:
        out.append(("seed:" + name, {"main.fer": src}))
    return out


_ctr = itertools.count()
import re
GOTRACE = re.compile(r"^goroutine \d+ \[[a-z ]+\]:$|^fatal error: ", re.M)


def crash_site(text):
    """(first compiler frame of the crashing goroutine, panic message) of a Go crash trace"""
    pm = re.search(r"^(panic: [^\n]*|fatal error: [^\n]*)", text, re.M)
    msg = pm.group(1) if pm else text[-160:].replace("\n", " | ")
    m = re.search(r"^goroutine \d+ \[running\]:\n(.*)", text, re.S | re.M)
    site = "?"
    if m:
        for l in m.group(1).split("\n"):
            if l.startswith(("compiler/", "main.")):
                site = re.sub(r"\([^()]*\)$", "", l.strip())
                break
    return site, msg



def run_one(ferret, libs, files, mode):
    base = os.path.join(scratch(), "mon", "w%d" % next(_ctr))
    d = os.path.join(base, "app")
    os.makedirs(d)
    for rel, b in files.items():
        p = os.path.join(d, rel)
        os.makedirs(os.path.dirname(p), exist_ok=True)
        with open(p, "wb") as f:
            f.write(b)
    outp = os.path.join(d, "out.wasm" if mode == "wasm" else "out.bin")
    cmd = [ferret] + (["-t"] if mode == "check" else ["-o", outp] + (["-target", "wasm"] if mode == "wasm" else [])) + ["main.fer"]
    env = dict(os.environ)
    env.update(ferret_env(libs))
    t0 = time.time()
    res = {"timeout": False}
    try:
        p = subprocess.run(cmd, cwd=d, env=env, stdout=subprocess.PIPE, stderr=subprocess.PIPE, timeout=TIMEOUT)
        res["rc"] = p.returncode
        res["out"] = (p.stdout + p.stderr).decode("utf-8", "replace")
    except subprocess.TimeoutExpired as e:
        res["timeout"] = True
        res["rc"] = None
        res["out"] = ((e.stdout or b"") + (e.stderr or b"")).decode("utf-8", "replace")
    res["wall"] = time.time() - t0
    res["artifact"] = os.path.exists(outp)
    # everything the compilation left in the project directory besides its inputs (`.ferret` is the compiler's per-project cache
    # directory, created for every project even on success)
    left = []
    for root_, dirs, fs in os.walk(d):
        dirs[:] = [x for x in dirs if x != ".ferret"]
        for f in fs:
            rel = os.path.relpath(os.path.join(root_, f), d)
            if rel not in files: left.append(rel)
    res["leftover"] = sorted(left)
    res["dir"] = d
    # verdict against the property
    bad = []
    text = strip_ansi(res["out"])
    diags = parse_diags(res["out"])
    errs = [x for x in diags if x[0] == "error"]
    if res["timeout"]:
        bad.append("does not terminate within %d s" % TIMEOUT)
    else:
        rc = res["rc"]
        if rc not in (0, 1) or GOTRACE.search(text):
            site, msg = crash_site(text)
            res["crash_site"] = site
            bad.append("internal crash (exit status %s) in %s: %s" % (rc, site, msg[:160]))
        else:
            if rc == 0 and errs:
                bad.append("exit status 0 although %d error diagnostic(s) were printed: %s" % (len(errs), errs[0][2][:100]))
            if rc != 0 and not errs:
                bad.append("exit status %d without any error diagnostic: %s" % (rc, text[-200:].replace("\n", " | ")))
            if rc != 0 and res["artifact"]:
                bad.append("output artefact left behind after a failed compilation")
            elif rc != 0 and res["leftover"]:
                bad.append("generated files left behind after a failed compilation: %s" % res["leftover"][:4])
            if rc == 0 and mode != "check" and not res["artifact"]:
                bad.append("exit status 0 but no output artefact was produced")
            located, with_loc, badloc = 0, 0, []
            for sev, code, msg, f, ln, col in errs:
                if f is None:
                    continue
                with_loc += 1
                path = f if os.path.isabs(f) else os.path.join(d, f)
                if not os.path.isfile(path):
                    badloc.append("error diagnostic points to `%s`, which is not an input file" % f[-80:])
                    continue
                try:
                    lines = open(path, "rb").read().split(b"\n")
                except OSError:
                    continue
                if not (1 <= ln <= len(lines) + 1) or col < 1 or (ln <= len(lines) and col > 4 * len(lines[ln - 1]) + 2):
                    badloc.append("error diagnostic location %s:%d:%d lies outside the file (%d lines)" % (os.path.basename(f), ln, col, len(lines)))
                else:
                    located += 1
            # the failure must be reported by an error diagnostic located inside an input file; diagnostics without any
            # location (back-end / linker failures) are acceptable only when no error carries a location at all
            if rc != 0 and errs and with_loc and not located:
                bad.append("no error diagnostic of the failed compilation is located inside an input file: " + badloc[0])
            res["badloc"] = len(badloc)
            res["located"] = located
            res["nerr"] = len(errs)
    res["bad"] = bad
    shutil.rmtree(base, ignore_errors=True)
    return res


def main():
    tier = os.environ.get("VERIF_TIER", "quick")
    rep = Report(PID)
    stats = {}
    try:
        hook = build_gohook()
        ferret, libs = build_ferret()
        problems, ops, kws = lexgen.gen_lex_tables(hook)
        fvdriver()
    except BuildError as e:
        log(str(e))
        rep.fail("tie:build", "compiler / hook / driver no longer builds (tie broken)", {"kind": "broken-obligation", "detail": str(e)[-2000:]}, no_input=True)
        write_evidence(PID, "other", {"explanation": "build failed", "obligations": 1, "discharged": 0}, violations=1)
        return rep.finish()
    for pr in problems:
        rep.fail("tie:lex-table:" + hashlib.sha1(pr.encode()).hexdigest()[:8], "lexer pattern list differs from what Model/Lexer.lean transcribes: " + pr,
                 {"kind": "broken-obligation", "correspondence": "tokenizer.go pattern list vs Model/Lexer.lean scanners", "detail": pr}, no_input=True)

    rng = SplitMix64(seed() * 7919 + 13)
    # ---- (2) lexer correspondence
    n_lex = 1500 if tier == "quick" else 12000
    lex_in = lex_streams(rng, n_lex)
    inp = "".join(hexs(b) + "\n" for _, b in lex_in)
    go = run([hook, "lex"], input=inp, timeout=600).stdout.split("\n")
    lean = run_driver(["lex"], inp).split("\n")
    lex_diffs, kinds = [], {}
    for (kind, b), g, l in zip(lex_in, go, lean):
        kinds[kind.split(":")[0]] = kinds.get(kind.split(":")[0], 0) + 1
        if g.startswith("panic"):
            rep.fail("lexpanic:" + hashlib.sha1(b).hexdigest()[:12], "lexer.Tokenize panics on %r: %s" % (b[:60], g[:120]),
                     {"kind": "input", "hex": b.hex(), "cmd": "gohook lex", "observed": g[:300]})
        elif g != l:
            lex_diffs.append({"input_hex": b.hex(), "go": g[:300], "model": l[:300], "kind": kind})
    # non-ASCII / arbitrary bytes: the model's domain is ASCII, the real lexer must still not crash and must end with EOF
    raw = [bytes(rng.below(256) for _ in range(rng.below(80))) for _ in range(400 if tier == "quick" else 4000)]
    raw += [b'"\xff"', b'"\xff" let x := 1;', b"/* \xe2\x82 */ x", b"'\xc3\xa9'", b"// \xf0\x9f\x98\x80\nlet", b"\xef\xbb\xbfimport", b"x\xc0\xafy"]
    go_raw = run([hook, "lex"], input="".join(hexs(b) + "\n" for b in raw), timeout=600).stdout.split("\n")
    for b, g in zip(raw, go_raw):
        if g.startswith("panic") or "656e645f6f665f66696c65" not in g:
            rep.fail("lexraw:" + hashlib.sha1(b).hexdigest()[:12], "lexer.Tokenize fails on arbitrary bytes %r: %s" % (b[:40], g[:120]),
                     {"kind": "input", "hex": b.hex(), "cmd": "gohook lex", "observed": g[:300]})
    stats["lexer"] = {"ascii_cases": len(lex_in), "raw_byte_cases": len(raw), "diffs": len(lex_diffs), "kinds": kinds}

    # ---- (3) bag correspondence
    n_bag = 400 if tier == "quick" else 4000
    bag_in = []
    for i in range(n_bag):
        k = rng.below(12)
        bag_in.append(" ".join("%s:%d:%d:%s:%d:%d:%d" % (rng.choice("ewih") if rng.below(3) else "w", rng.below(2), rng.below(4) == 0, rng.choice(["a.fer", "b.fer", "-", "lib/z.fer"]),
                                                          rng.below(5), rng.below(9), j) for j in range(k)))
    inp = "".join(l + "\n" for l in bag_in)
    gb = run([hook, "diag-bag"], input=inp, timeout=300).stdout.split("\n")
    lb = run_driver(["diag-bag"], inp).split("\n")
    bag_diffs = [{"adds": a, "go": g, "model": l} for a, g, l in zip(bag_in, gb, lb) if g != l]
    for a, g in zip(bag_in, gb):
        ne = sum(1 for t in a.split() if t.startswith("e:"))
        nw = sum(1 for t in a.split() if t.startswith("w:"))
        want = "errors=%d warnings=%d has=%s len=%d printed_errors=%d failed_line=%s" % (ne, nw, "true" if ne else "false", len(a.split()), ne, "true" if ne else "false")
        if g != want:
            rep.fail("bag:" + hashlib.sha1(a.encode()).hexdigest()[:12], "DiagnosticBag counters/emission wrong after adds [%s]: %s" % (a[:80], g),
                     {"kind": "input", "ops": a, "cmd": "gohook diag-bag", "expected": want, "observed": g})
    conc_in = ["%d %s" % (g, " ".join("%s:0:0:-:0:0:%d" % (rng.choice("ewih"), j) for j in range(1 + rng.below(6)))) for g in (2, 4, 8, 16, 32) for _ in range(6 if tier == "quick" else 40)]
    gc = run([hook, "diag-conc"], input="".join(l + "\n" for l in conc_in), timeout=600, env={"GOMAXPROCS": "16"}).stdout.split("\n")
    for a, g in zip(conc_in, gc):
        f = a.split()
        G = int(f[0])
        ne = sum(1 for t in f[1:] if t.startswith("e:")) * 50 * G
        nw = sum(1 for t in f[1:] if t.startswith("w:")) * 50 * G
        want = "errors=%d warnings=%d has=%s len=%d" % (ne, nw, "true" if ne else "false", (len(f) - 1) * 50 * G)
        if g != want:
            rep.fail("bagconc:" + hashlib.sha1(a.encode()).hexdigest()[:12], "concurrent DiagnosticBag.Add loses or miscounts diagnostics (%s goroutines): %s, expected %s" % (G, g, want),
                     {"kind": "input", "ops": a, "cmd": "gohook diag-conc", "expected": want, "observed": g})
    stats["bag"] = {"sequences": len(bag_in), "concurrent_runs": len(conc_in), "diffs": len(bag_diffs)}

    # ---- (4) whole-compiler monitor
    n_mon = 900 if tier == "quick" else 9000
    mon = monitor_inputs(rng, n_mon)
    from concurrent.futures import ThreadPoolExecutor
    modes = []
    for i in range(len(mon)):
        r = i % 10
        modes.append("wasm" if r == 9 else ("check" if r in (7, 8) else "build"))
    with ThreadPoolExecutor(max_workers=NPROC) as ex:
        results = list(ex.map(lambda kv: run_one(ferret, libs, kv[0][1], kv[1]), zip(mon, modes)))
    mk, accepted, failed, maxwall, unlocated = {}, 0, 0, 0.0, 0
    for (kind, files), mode, r in zip(mon, modes, results):
        kk = kind.split(":")[0] if not kind.startswith("import") else "import"
        mk[kk] = mk.get(kk, 0) + 1
        maxwall = max(maxwall, r["wall"])
        if r.get("rc") == 0: accepted += 1
        elif r.get("rc") == 1:
            failed += 1
            if r.get("nerr") and not r.get("located"): unlocated += 1
        for b in r["bad"]:
            h = hashlib.sha1(repr(sorted(files.items())).encode()).hexdigest()[:12]
            # an internal crash is identified by its crash site (first compiler frame of the panicking goroutine): one finding per site
            key = "crash:" + r["crash_site"] if r.get("crash_site") and r["crash_site"] != "?" else "monitor:%s:%s" % (b.split(":")[0].split("(")[0].strip()[:40].replace(" ", "-"), h)
            rep.fail(key, "%s [input kind %s, mode %s]" % (b, kind, mode),
                     {"kind": "input", "files_hex": {k: v.hex() for k, v in files.items()}, "mode": mode, "cmd": "ferret " + ("-t" if mode == "check" else "-o out" + (" -target wasm" if mode == "wasm" else "")) + " main.fer",
                      "observed": strip_ansi(r["out"])[-1500:], "exit": r.get("rc")})
    stats["monitor"] = {"runs": len(mon), "accepted": accepted, "failed_cleanly": failed, "failed_with_only_unlocated_errors": unlocated, "max_wall_s": round(maxwall, 2), "input_kinds": mk,
                        "modes": {m: modes.count(m) for m in set(modes)}}

    # ---- theorems
    ok, out = lake_build(["FerretVerif.Props.C13"])
    names = theorem_names("C13")
    axioms, discharged = {}, 0
    if ok:
        axioms, _ = audit_theorems("C13", names)
        for nm in names:
            ax = axioms.get(nm)
            if ax is not None and set(ax) <= ALLOWED_AXIOMS: discharged += 1
            else: rep.fail("axioms:" + nm, "theorem %s missing or depends on unexpected axioms %s" % (nm, ax), {"kind": "broken-obligation", "theorem": nm}, no_input=True)
    else:
        log(out[-3000:])
        # which obligation broke?  tables_ok is the one that depends on the regenerated table
        bad_rows = [(l.hex(), t.hex()) for l, t in ops if l != t or not l]
        rep.fail("proof:C13", "Props/C13.lean no longer builds against the regenerated lexer tables%s" % ("; operator rows whose handler does not consume the matched text: %s" % bad_rows[:4] if bad_rows else ""),
                 {"kind": "broken-obligation", "theorem": "FerretVerif.C13.tables_ok" if bad_rows else "Props/C13", "detail": out[-3000:], "rows": bad_rows[:10]}, no_input=True)
    forb = grep_forbidden()
    if forb:
        rep.fail("audit:forbidden", "forbidden construct in Lean sources: %s" % forb[:3], {"kind": "broken-obligation", "hits": forb[:20]}, no_input=True)
    if lex_diffs and not any(v[0].startswith(("lexpanic", "lexraw")) for v in rep.violations):
        # model and code disagree: look for a property-level consequence (progress / EOF / positions inside the input) on the diffed inputs
        d = lex_diffs[0]
        rep.fail("tie:lexer", "Model/Lexer.lean and lexer.Tokenize disagree on %d of %d ASCII inputs (first: %r)" % (len(lex_diffs), len(lex_in), bytes.fromhex(d["input_hex"])[:60]),
                 {"kind": "broken-obligation", "correspondence": "fvdriver lex vs gohook lex", "diffs": lex_diffs[:10]}, no_input=True)
    if bag_diffs and not any(v[0].startswith("bag") for v in rep.violations):
        rep.fail("tie:bag", "Model/Diag.lean and DiagnosticBag disagree on %d sequences" % len(bag_diffs),
                 {"kind": "broken-obligation", "correspondence": "fvdriver diag-bag vs gohook diag-bag", "diffs": bag_diffs[:10]}, no_input=True)
    cov = {
        "explanation": "PARTIAL. Kernel-checked (Lean 4): lexer progress and termination within |input| iterations for every byte string, token list ends with exactly one EOF at offset |input|, "
                       "bag counters exact for every sequence of Add calls, exit status 0 <=> no error diagnostic, an error in the bag prevents the artefact. Tied to the code by the regenerated pattern/keyword "
                       "tables and by byte-level lexer and bag correspondence. Crashes and hangs of the later Go phases cannot be exhibited by a pure model: they are observed by the whole-compiler monitor "
                       "(mutated real programs, raw bytes, broken multi-file projects; native build, -t and wasm), each run judged against the property itself.",
        "obligations": len(names), "discharged": discharged,
        "checker_cmd": "cd /verif/lean && lake build FerretVerif.Props.C13 && #print axioms per theorem",
        "trusted_base": ["Lean 4 kernel", "axioms: " + ", ".join(sorted({a for v in axioms.values() if v for a in v})), "gohook overlay (lex, lex-tables, diag-bag, diag-conc)",
                         "lexgen.py translator (regex sources compared verbatim, operator literals extracted with regexp/syntax)", "diagnostic text parser (severity header, --> file:line:col)", "timeout %d s as the bound for `terminates`" % TIMEOUT],
        "theorems": [{"name": nm, "axioms": axioms.get(nm)} for nm in names],
        "gen_tables": {"lexOps": len(ops), "lexKeywords": len(kws)},
        "evaluations": len(lex_in) + len(raw) + len(bag_in) + len(conc_in) + len(mon),
        "distinct_nontrivial": failed + sum(1 for (k, b), g in zip(lex_in, go) if "errs=0" not in g),
        "rule": "seeded (VERIF_SEED): lexer inputs = repo example programs, their token-level mutations, adversarial literal/operator pieces, random ASCII, punctuation soup (model vs code) + arbitrary bytes (code only); "
                "bag = random add sequences + concurrent adds from 2..32 goroutines; monitor = mutations (truncate/delete/dup/swap/shuffle/insert/replace/drop-punct/flip-byte/multi) of the repo's example programs, raw byte files, "
                "%d multi-file import scenarios (missing, malformed, binary, cyclic, self, aliased, duplicate, nested, escaping paths) with and without extra damage; non-trivial = inputs that make the lexer or the compiler report an error" % len(fuzzgen.IMPORT_CASES),
        "samples": [k for k, _ in mon[:: max(1, len(mon) // 10)]][:10],
        "model_vs_code_diffs": lex_diffs[:5] + bag_diffs[:5], "stats": stats,
    }
    write_evidence(PID, "other", cov, assumptions=["inputs are file contents of an existing entry file; command-line misuse is outside the property",
                                                     "`terminates in bounded time` is observed as: within %d s per compilation (typical: < 0.3 s)" % TIMEOUT],
                   violations=len(rep.violations))
    return rep.finish()


if __name__ == "__main__":
    sys.exit(main())
